//! Finding 3: `A | B => timeline` does not install "the same timeline" for A and B. The macro pastes
//! the timeline-building code once per listed state, so every expression inside the arm (keyframe
//! values, the easing path) is evaluated once per state instead of once per arm.
//!
//! Property: "'A | B => ...' installs the same timeline for each listed state" - the builder
//! equivalent is `let t = ...build(); builder.on(A, t.clone()).on(B, t)`.

use mina::prelude::*;
use std::cell::Cell;

#[derive(Clone, Debug, Default, Eq, PartialEq, State)]
enum Mode {
    #[default]
    Idle,
    Hovered,
    Focused,
}

#[derive(Animate, Clone, Debug, Default, PartialEq)]
struct Style {
    x: f32,
}

#[test]
fn multi_state_arm_installs_one_and_the_same_timeline() {
    // A finite, perfectly valid keyframe value that happens to come from a stateful source (a
    // counter here; think of an RNG, an id generator or a layout cursor in real code).
    let calls = Cell::new(0u32);
    let next_target = || {
        calls.set(calls.get() + 1);
        10.0 * calls.get() as f32
    };

    let mut animator = animator!(Style {
        default(Mode::Idle, { x: 0.0 }),
        Mode::Hovered | Mode::Focused => 1s to { x: next_target() },
    });

    assert_eq!(
        calls.get(),
        1,
        "property demands: one arm describes one timeline, so its keyframe expression is evaluated \
         once (as with `let t = ..; .on(Hovered, t.clone()).on(Focused, t)`); the library evaluated \
         it {} times, once per listed state",
        calls.get()
    );

    animator.set_state(&Mode::Hovered);
    animator.advance(1.0);
    let hovered = animator.current_values().clone();

    animator.set_state(&Mode::Idle);
    animator.set_state(&Mode::Focused);
    animator.advance(1.0);
    let focused = animator.current_values().clone();

    assert_eq!(
        hovered, focused,
        "property demands: Hovered and Focused share the same timeline and therefore end on the \
         same values; the library built two different timelines (Hovered ends on {hovered:?}, \
         Focused ends on {focused:?})"
    );
}
