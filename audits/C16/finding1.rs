//! Finding 1: a trailing comma inside a bracketed (merged) timeline list makes `animator!` install
//! an extra, phantom timeline (no keyframes, default 1 s duration) next to the listed ones.
//!
//! Property: "a bracketed list installs a merged timeline" - i.e. exactly
//! `MergedTimeline::of([t1, t2])` for `[t1, t2]`, with or without the trailing comma that the
//! project's own README / iced_widget example use (`Interaction::None => [ ..., ..., ],`).

use mina::prelude::*;

#[derive(Clone, Debug, Default, Eq, PartialEq, State)]
enum Mode {
    #[default]
    Idle,
    Active,
}

#[derive(Animate, Clone, Debug, Default, PartialEq)]
struct Style {
    x: f32,
    y: f32,
}

/// What the builder API produces for the two listed timelines.
fn built_with_builder() -> impl StateAnimator<State = Mode, Values = Style> {
    StateAnimatorBuilder::new()
        .from_state(Mode::Idle)
        .from_values(Style { x: 0.0, y: 0.0 })
        .on(
            Mode::Active,
            MergedTimeline::of([
                Style::timeline()
                    .duration_seconds(0.25)
                    .keyframe(Style::keyframe(1.0).x(1.0))
                    .build(),
                Style::timeline()
                    .duration_seconds(0.5)
                    .keyframe(Style::keyframe(1.0).y(1.0))
                    .build(),
            ]),
        )
        .build()
}

#[test]
fn trailing_comma_in_merged_list_does_not_add_a_timeline() {
    // Identical blocks, except for the comma after the last timeline of the list.
    let mut without_comma = animator!(Style {
        default(Mode::Idle, { x: 0.0, y: 0.0 }),
        Mode::Active => [
            0.25s to { x: 1.0 },
            0.5s to { y: 1.0 }
        ],
    });
    let mut with_comma = animator!(Style {
        default(Mode::Idle, { x: 0.0, y: 0.0 }),
        Mode::Active => [
            0.25s to { x: 1.0 },
            0.5s to { y: 1.0 },
        ],
    });
    let mut reference = built_with_builder();

    without_comma.set_state(&Mode::Active);
    with_comma.set_state(&Mode::Active);
    reference.set_state(&Mode::Active);

    // 0.75 s is well past the end of the longest listed timeline (0.5 s).
    for _ in 0..3 {
        without_comma.advance(0.25);
        with_comma.advance(0.25);
        reference.advance(0.25);
    }

    assert_eq!(reference.current_values(), &Style { x: 1.0, y: 1.0 });
    assert!(reference.is_ended(), "builder reference must have ended after 0.75 s");
    assert!(
        without_comma.is_ended(),
        "sanity: the list without trailing comma ends with its longest timeline (0.5 s)"
    );
    assert_eq!(
        with_comma.is_ended(),
        reference.is_ended(),
        "property demands: `[t1, t2,]` installs the merged timeline of t1 (0.25 s) and t2 (0.5 s), \
         which has ended 0.75 s after entering the state (builder: is_ended() == true); \
         the library installed a third, empty 1 s timeline, so the animator still reports \
         is_ended() == false until a full second has passed"
    );
}

#[test]
fn single_bracketed_timeline_with_trailing_comma() {
    let mut with_comma = animator!(Style {
        default(Mode::Idle, { x: 0.0, y: 0.0 }),
        Mode::Active => [ 100ms to { x: 1.0 }, ],
    });
    with_comma.set_state(&Mode::Active);
    with_comma.advance(0.5);
    assert_eq!(with_comma.current_values(), &Style { x: 1.0, y: 0.0 });
    assert!(
        with_comma.is_ended(),
        "property demands: the only timeline of the list lasts 0.1 s, so the animation for \
         Mode::Active has ended after 0.5 s; the library reports is_ended() == false because the \
         trailing comma added a phantom timeline with the default duration of 1 s"
    );
}
