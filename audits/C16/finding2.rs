//! Finding 2: the keyframe body `default` only works when `animator!` is invoked from the module
//! that contains the `#[derive(Animate)]` struct (or a child of it). Anywhere else the block is
//! rejected with `error[E0624]: method `values_from` is private`, although the equivalent builder
//! code (`Style::keyframe_from(&defaults, 1.0)`) compiles and runs.
//!
//! This file therefore FAILS TO COMPILE on the unchanged checkout; with the fix it compiles and
//! the test passes.
//!
//! Property: "the word 'default' as a keyframe body stands for those initial values" and "for
//! every well-formed animator! block the resulting animator behaves identically to one built with
//! StateAnimatorBuilder".

use mina::prelude::*;

/// The animated type lives in its own module, as it would in any project that keeps styles and
/// widgets in separate files. The struct and its fields are public.
mod theme {
    use mina::prelude::*;

    #[derive(Animate, Clone, Debug, Default, PartialEq)]
    pub struct Style {
        pub alpha: f32,
        pub size: f32,
    }
}

use theme::Style;

#[derive(Clone, Debug, Default, Eq, PartialEq, State)]
enum Mode {
    #[default]
    Idle,
    Active,
}

#[test]
fn default_keyframe_is_usable_outside_the_module_of_the_animated_type() {
    // Builder version: compiles here without any problem.
    let defaults = Style { alpha: 0.5, size: 60.0 };
    let mut reference = StateAnimatorBuilder::new()
        .from_state(Mode::Idle)
        .from_values(defaults.clone())
        .on(
            Mode::Idle,
            Style::timeline()
                .duration_seconds(2.0)
                .keyframe(Style::keyframe_from(&defaults, 1.0)),
        )
        .on(
            Mode::Active,
            Style::timeline()
                .duration_seconds(1.0)
                .keyframe(Style::keyframe(1.0).alpha(1.0).size(80.0)),
        )
        .build();

    // Macro version of exactly the same animator (this is the example from the crate docs, with
    // the struct moved to another module). The unchanged library does not compile this:
    //   error[E0624]: method `values_from` is private
    let mut animator = animator!(Style {
        default(Mode::Idle, { alpha: 0.5, size: 60.0 }),
        Mode::Idle => 2s to default,
        Mode::Active => 1s to { alpha: 1.0, size: 80.0 }
    });

    for (state, step) in [
        (Mode::Active, 0.5),
        (Mode::Idle, 0.8),
        (Mode::Idle, 1.2),
        (Mode::Active, 1.0),
        (Mode::Idle, 2.0),
    ] {
        animator.set_state(&state);
        reference.set_state(&state);
        animator.advance(step);
        reference.advance(step);
        assert_eq!(
            animator.current_values(),
            reference.current_values(),
            "property demands: `to default` stands for the initial values, exactly like \
             Style::keyframe_from(&defaults, 1.0) in the builder API"
        );
        assert_eq!(animator.is_ended(), reference.is_ended());
    }
    assert_eq!(animator.current_values(), &Style { alpha: 0.5, size: 60.0 });
}
