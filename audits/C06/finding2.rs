//! C06 (frame-rate independence), finding 2.
//!
//! `advance` rounds every single frame time to a whole number of nanoseconds
//! (`Duration::from_secs_f32`) before adding it to the time in state. The rounding error (up to
//! half a nanosecond per call) has the same sign on every frame when the frame time is constant,
//! so it grows linearly with the number of frames: the time in state depends on HOW the time was
//! delivered, not only on how much time was delivered - even when every frame time is an
//! exactly representable `f32` and the frame times add up exactly to the `f32` total.

use mina::prelude::*;

#[derive(Clone, Debug, Default, Eq, PartialEq, State)]
enum Mode {
    #[default]
    Spinning,
}

#[derive(Animate, Clone, Debug, Default, PartialEq)]
struct Style {
    x: f32,
}

fn animator(cycle_seconds: f32, repeat: Repeat) -> impl StateAnimator<State = Mode, Values = Style> {
    StateAnimatorBuilder::new()
        .from_state(Mode::Spinning)
        .on(
            Mode::Spinning,
            Style::timeline()
                .duration_seconds(cycle_seconds)
                .repeat(repeat)
                .keyframe(Style::keyframe(0.0).x(0.0))
                .keyframe(Style::keyframe(1.0).x(100.0)),
        )
        .build()
}

fn split_and_single(
    cycle_seconds: f32,
    repeat: Repeat,
    frame: f32,
    frames: usize,
    total: f32,
) -> (f32, f32) {
    // Inside the "exactly representable" part of the property: every step is an f32 and
    // `frames` times the f32 `frame` is, without any rounding, the f32 `total`.
    assert_eq!(frame as f64 * frames as f64, total as f64, "test setup: exact total");

    let mut split = animator(cycle_seconds, repeat);
    for _ in 0..frames {
        split.advance(frame);
    }
    let mut single = animator(cycle_seconds, repeat);
    single.advance(total);
    (split.current_values().x, single.current_values().x)
}

#[test]
fn frames_of_one_360th_second_256_of_them() {
    // A 360 Hz display: every frame is exactly the f32 nearest to 1/360 s. 256 such frames are
    // exactly the f32 0.7111111 s = 4 cycles of a looping timeline whose cycle is 64 frames.
    // Each frame (2777777.84.. ns) is stored as 2777778 ns, so 256 frames are stored as
    // 711111168 ns although they lasted 711111128 ns; that is most of an ulp of the total, and
    // the split history has already started cycle 5 while the single frame holds the end of
    // cycle 4.
    let frame = 1.0f32 / 360.0;
    let cycle = frame * 64.0;
    let total = frame * 256.0;
    let (split, single) = split_and_single(cycle, Repeat::Infinite, frame, 256, total);
    assert!(
        (split - single).abs() < 0.01,
        "property demands: 256 x advance(1/360) shows the same x as advance(256/360) (the steps \
         are exact f32 values that sum exactly to the f32 total); library: x = {split} after \
         the 256 frames but x = {single} after the single frame (64/360 s looping timeline, \
         x: 0 -> 100)"
    );
}

#[test]
fn frames_of_one_4096th_second_2048_of_them() {
    // Dyadic steps: every partial sum is exact in f32 too, nothing is ever rounded by the caller. 2^-12 s = 244140.625 ns is stored as
    // 244141 ns; after 2048 frames the animator believes 0.500000768 s have passed, not 0.5 s.
    let frame = 1.0f32 / 4096.0;
    let (split, single) = split_and_single(0.5, Repeat::Infinite, frame, 2048, 0.5);
    assert!(
        (split - single).abs() < 0.01,
        "property demands: 2048 x advance(2^-12) shows the same x as advance(0.5); library: \
         x = {split} after the 2048 frames but x = {single} after the single frame (0.5 s \
         looping timeline, x: 0 -> 100)"
    );
}

#[test]
fn frames_shorter_than_half_a_nanosecond_are_dropped_entirely() {
    // Extreme end of the same defect (kept last because nobody renders at 2 GHz): frames below
    // 0.5 ns are rounded to zero, so the animation never moves however many frames are delivered;
    // nothing here is near a cycle boundary. Timeline: 2^-20 s (~0.95 us), not repeated;
    // 1024 frames of 2^-31 s are exactly half of it.
    let frame = (2.0f32).powi(-31);
    let total = (2.0f32).powi(-21);
    let (split, single) = split_and_single((2.0f32).powi(-20), Repeat::None, frame, 1024, total);
    assert!(
        (split - single).abs() < 1.0,
        "property demands: 1024 x advance(2^-31) shows the same x as advance(2^-21), i.e. about \
         50 (half of the 2^-20 s timeline); library: x = {split} after the 1024 frames but \
         x = {single} after the single frame"
    );
}
