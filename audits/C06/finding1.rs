//! C06 (frame-rate independence), finding 1.
//!
//! `advance(a); advance(b)` must show the same values as `advance(a + b)`, and IDENTICAL values
//! when the steps are exactly representable. Below every step is an `f32`, and the steps add up
//! (in exact arithmetic, checked in `f64`) to precisely the `f32` that is passed to the single
//! `advance`. Still the two animators end up a whole animation range apart, because the
//! animator converts its time in state with `Duration::as_secs_f32()`, which is off by up to a
//! full ulp and turns a 1 ns difference between the two histories into times on either side of
//! the cycle end.

use mina::prelude::*;

#[derive(Clone, Debug, Default, Eq, PartialEq, State)]
enum Mode {
    #[default]
    Spinning,
}

#[derive(Animate, Clone, Debug, Default, PartialEq)]
struct Style {
    x: f32,
}

fn looping_animator(
    cycle_seconds: f32,
    repeat: Repeat,
) -> impl StateAnimator<State = Mode, Values = Style> {
    StateAnimatorBuilder::new()
        .from_state(Mode::Spinning)
        .on(
            Mode::Spinning,
            Style::timeline()
                .duration_seconds(cycle_seconds)
                .repeat(repeat)
                .keyframe(Style::keyframe(0.0).x(0.0))
                .keyframe(Style::keyframe(1.0).x(100.0)),
        )
        .build()
}

/// Runs the same total time once as `steps` and once as a single step, and returns both `x`.
fn split_and_single(cycle_seconds: f32, repeat: Repeat, steps: &[f32], total: f32) -> (f32, f32) {
    // The schedule is inside the "exactly representable" part of the property: the f32 steps add
    // up, without any rounding, to the f32 total.
    let exact_sum: f64 = steps.iter().map(|s| *s as f64).sum();
    assert_eq!(exact_sum, total as f64, "test setup: steps must add up exactly");

    let mut split = looping_animator(cycle_seconds, repeat);
    for step in steps {
        split.advance(*step);
    }
    let mut single = looping_animator(cycle_seconds, repeat);
    single.advance(total);
    (split.current_values().x, single.current_values().x)
}

#[test]
fn four_frames_of_0_46s_equal_one_frame_of_1_84s() {
    // 0.46f32 * 4 == 1.84f32 exactly (scaling by 4 is exact).
    let (split, single) =
        split_and_single(1.84, Repeat::Infinite, &[0.46, 0.46, 0.46, 0.46], 1.84);
    assert!(
        (split - single).abs() < 0.01,
        "property demands: advance(0.46) x4 shows the same x as advance(1.84) (steps are exact \
         f32 values that sum exactly to 1.84f32); library: x = {split} after the four frames but \
         x = {single} after the single frame (1.84 s looping timeline, x: 0 -> 100)"
    );
}

#[test]
fn two_frames_of_0_7835s_equal_one_frame_of_1_567s() {
    let (split, single) = split_and_single(1.567, Repeat::Infinite, &[0.7835, 0.7835], 1.567);
    assert!(
        (split - single).abs() < 0.01,
        "property demands: advance(0.7835) x2 shows the same x as advance(1.567); library: \
         x = {split} after the two frames but x = {single} after the single frame (1.567 s \
         looping timeline, x: 0 -> 100)"
    );
}

#[test]
fn two_frames_of_3_5_sixtieths_equal_one_frame_of_7_sixtieths() {
    // A 7/60 s cycle (seven 60 Hz frames), delivered as two equal halves or at once; finite
    // repeat count this time, the instant is the end of the first of four cycles.
    let total = 7.0f32 / 60.0;
    let half = total / 2.0;
    let (split, single) = split_and_single(total, Repeat::Times(3), &[half, half], total);
    assert!(
        (split - single).abs() < 0.01,
        "property demands: advance(7/120) x2 shows the same x as advance(7/60); library: \
         x = {split} after the two frames but x = {single} after the single frame (7/60 s \
         timeline repeated 3 times, x: 0 -> 100)"
    );
}

#[test]
fn inserting_a_zero_length_advance_is_harmless_but_the_split_is_not() {
    // Same as the first test with zero-length advances sprinkled in, to show that those are
    // handled correctly and the difference really comes from how the 1.84 s were delivered.
    let mut with_zeros = looping_animator(1.84, Repeat::Infinite);
    let mut without = looping_animator(1.84, Repeat::Infinite);
    for _ in 0..4 {
        with_zeros.advance(0.0);
        with_zeros.advance(0.46);
        with_zeros.advance(0.0);
        without.advance(0.46);
    }
    assert_eq!(with_zeros.current_values(), without.current_values());

    let mut single = looping_animator(1.84, Repeat::Infinite);
    single.advance(1.84);
    let (split, single) = (without.current_values().x, single.current_values().x);
    assert!(
        (split - single).abs() < 0.01,
        "property demands: the same total time (1.84 s, exactly representable steps) shows the \
         same values however it is delivered; library: x = {split} (4 frames) vs x = {single} \
         (1 frame)"
    );
}
