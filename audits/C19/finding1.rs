//! C19 - AnimationChain fires on the end of *another* animator, and a key change is swallowed,
//! after the chain has moved the selector but `select_animation` has not acted on it yet.
//!
//! `register_animation_key` registers `(chain_animations, select_animation).before(animate)`, i.e.
//! it leaves chain/select unordered and Bevy picks one of the two orders per schedule. When
//! `select_animation` runs before `chain_animations`, a key written by the chain is only acted on
//! in the next frame. A key assignment made in between (back to the key that just ended) makes
//! `select_animation` believe nothing changed, and leaves the animator in a *stale* `Ended` state
//! with `previous_key == timeline_key`, which is exactly what `chain_animations` takes as proof
//! that "the governed animator just ended on the current key".
//!
//! The order Bevy picks depends on the other contents of the schedule (and on a per-process hash
//! seed), so the tests build the same app with 0, 1, 2, ... unrelated no-op systems registered in
//! `Update` and use the first one in which the chain's key change is visible one frame before the
//! animator restarts (= select runs before chain). If no such schedule exists (e.g. because the
//! plugin orders the two systems), the tests run on the plain app; the assertions are valid for
//! both orders.

use bevy::prelude::*;
use bevy_mina::prelude::*;
use mina::prelude::*;
use std::time::{Duration, Instant};

#[derive(Animate, Component, Clone, Debug, Default, PartialEq)]
struct Foo {
    x: f32,
}

#[derive(Animate, Component, Clone, Debug, Default, PartialEq)]
struct Bar {
    z: f32,
}

#[derive(Clone, Copy, Debug, Default, Eq, Hash, PartialEq)]
enum Key {
    #[default]
    Attack,
    Idle,
}

/// Stands for any other system of the application.
fn unrelated_system() {}

const DT: f32 = 0.25;

struct Harness {
    app: App,
    now: Instant,
    entity: Entity,
}

impl Harness {
    fn new(unrelated_systems: usize) -> Self {
        let mut app = App::new();
        for _ in 0..unrelated_systems {
            app.add_systems(Update, unrelated_system);
        }
        app.add_plugins((AnimationPlugin::<Foo>::new(), AnimationPlugin::<Bar>::new()))
            .register_animation_key::<Foo, Key>()
            .insert_resource(Time::default());
        let now = Instant::now();
        app.world.resource_mut::<Time>().update_with_instant(now);
        let selector = AnimationSelectorBuilder::new()
            .add(
                Key::Attack,
                timeline!(Foo 1s from { x: 0.0 } 50% { x: 20.0 } to { x: 10.0 }),
            )
            .add(Key::Idle, timeline!(Foo 1s to { x: 0.0 }))
            .build();
        // Only Attack -> Idle; Idle has no entry.
        let chain = AnimationChainBuilder::new().add(Key::Attack, Key::Idle).build();
        let entity = app
            .world
            .spawn((
                Foo::default(),
                Bar::default(),
                Animator::<Foo>::new(),
                // An independent animator for a second component type on the same entity; it has
                // no selector and no chain. It ends 3 s after the start.
                Animator::<Bar>::with_timeline(timeline!(Bar 3s from { z: 0.0 } to { z: 1.0 })),
                selector,
                chain,
            ))
            .id();
        Harness { app, now, entity }
    }

    fn step(&mut self) {
        self.now += Duration::from_secs_f32(DT);
        let now = self.now;
        self.app.world.resource_mut::<Time>().update_with_instant(now);
        self.app.update();
    }

    fn key(&self) -> Key {
        self.app
            .world
            .get::<AnimationSelector<Key, Foo>>(self.entity)
            .unwrap()
            .timeline_key
    }

    fn set_key(&mut self, key: Key) {
        self.app
            .world
            .get_mut::<AnimationSelector<Key, Foo>>(self.entity)
            .unwrap()
            .timeline_key = key;
    }

    fn foo_state(&self) -> AnimationState {
        self.app.world.get::<Animator<Foo>>(self.entity).unwrap().state()
    }

    fn foo_position(&self) -> Duration {
        self.app
            .world
            .get::<Animator<Foo>>(self.entity)
            .unwrap()
            .timeline_position
    }

    fn bar_state(&self) -> AnimationState {
        self.app.world.get::<Animator<Bar>>(self.entity).unwrap().state()
    }

    fn x(&self) -> f32 {
        self.app.world.get::<Foo>(self.entity).unwrap().x
    }

    /// Plays the initial Attack animation to its end and runs one more frame, in which the chain
    /// moves the selector to Idle. Returns whether Idle has already been acted on in that frame.
    fn play_attack_until_chained(&mut self) -> bool {
        let mut frames = 0;
        while self.foo_state() != AnimationState::Ended {
            self.step();
            frames += 1;
            assert!(frames < 20, "the 1 s Attack animation did not end");
        }
        assert_eq!(self.key(), Key::Attack);
        assert!((self.x() - 10.0).abs() < 1e-4);
        self.step();
        assert_eq!(
            self.key(),
            Key::Idle,
            "Attack ended and the chain maps Attack -> Idle, so the selector must be at Idle now"
        );
        self.foo_state() != AnimationState::Ended
    }
}

/// Builds the app in which `select_animation` runs before `chain_animations` if there is one, at
/// the point where Attack has ended and the chain has just moved the selector to Idle.
fn harness_after_chain_moved_to_idle() -> Harness {
    for unrelated_systems in 0..32 {
        let mut harness = Harness::new(unrelated_systems);
        let idle_already_playing = harness.play_attack_until_chained();
        if !idle_already_playing {
            return harness;
        }
    }
    let mut harness = Harness::new(0);
    harness.play_attack_until_chained();
    harness
}

#[test]
fn end_of_another_animator_must_not_advance_the_chain() {
    let mut h = harness_after_chain_moved_to_idle();
    assert_eq!(h.key(), Key::Idle);
    assert_ne!(h.bar_state(), AnimationState::Ended, "Bar's 3 s animation is still running");

    // The selector says Idle; the application changes it (back) to Attack.
    h.set_key(Key::Attack);

    // From here on the selector may only leave Attack through the chain, i.e. after the animator
    // governed by it (Animator<Foo>) has ended on Attack again. Watch 2.5 s, during which the
    // *other* animator on the entity (Animator<Bar>) ends.
    let mut foo_ended_again = false;
    let mut bar_ended = false;
    let mut previous_foo_state = h.foo_state();
    for frame in 0..10 {
        h.step();
        let foo_state = h.foo_state();
        if foo_state == AnimationState::Ended && previous_foo_state != AnimationState::Ended {
            foo_ended_again = true;
        }
        previous_foo_state = foo_state;
        bar_ended |= h.bar_state() == AnimationState::Ended;
        assert!(
            h.key() == Key::Attack || foo_ended_again,
            "the chain must only fire when the animator governed by the selector ends, never \
             because some other animator on the entity ended; but {} frames after Attack was \
             assigned the selector moved Attack -> {:?} although Animator<Foo> has not ended \
             since (it was not even restarted: state {:?}, position {:?}) - what ended was \
             Animator<Bar> (ended: {bar_ended})",
            frame + 1,
            h.key(),
            foo_state,
            h.foo_position(),
        );
    }
    assert!(bar_ended, "test setup: Animator<Bar> should have ended inside the watched window");
}

#[test]
fn changing_the_key_after_the_chain_moved_on_must_play_the_new_key() {
    let mut h = harness_after_chain_moved_to_idle();
    assert_eq!(h.key(), Key::Idle);
    let x_before = h.x();

    // The selector says Idle; the application changes it to Attack (e.g. the player attacks again
    // right after the previous attack finished).
    h.set_key(Key::Attack);
    h.step();

    assert_eq!(h.key(), Key::Attack);
    assert!(
        (h.x() - x_before).abs() < 1e-4,
        "the component must not jump when the key changes: x was {x_before}, is {}",
        h.x()
    );
    assert!(
        h.foo_state() == AnimationState::Playing
            && h.foo_position() <= Duration::from_secs_f32(DT),
        "changing the selector's key from Idle to Attack must make the animator play Attack from \
         its beginning; instead nothing was restarted: the animator is {:?} at position {:?} \
         (left over from the previous run of Attack)",
        h.foo_state(),
        h.foo_position(),
    );

    // Attack (0 -> 20 -> 10 over 1 s, blended from the current x = 10) is followed ...
    h.step();
    h.step();
    assert!(
        (h.x() - 20.0).abs() < 1e-3,
        "0.5 s into Attack x must be at the 50% keyframe (20), but x = {}",
        h.x()
    );
    // ... and when it ends the chain brings the selector back to Idle.
    for _ in 0..6 {
        h.step();
    }
    assert_eq!(
        h.key(),
        Key::Idle,
        "Attack was played to its end and the chain maps Attack -> Idle, but the selector is \
         stuck at Attack with the animator {:?}",
        h.foo_state()
    );
}
