//! C19 - a chain entry that maps a key to itself (a cycle of length one in the chain map) never
//! replays the animation, although the chain documentation says that "the animator will be reset"
//! and every longer cycle (A -> B -> A) does loop.

use bevy::prelude::*;
use bevy_mina::prelude::*;
use mina::prelude::*;
use std::time::{Duration, Instant};

#[derive(Animate, Component, Clone, Debug, Default, PartialEq)]
struct Foo {
    x: f32,
}

#[derive(Clone, Copy, Debug, Default, Eq, Hash, PartialEq)]
enum Key {
    #[default]
    Pulse,
    Other,
}

const DT: f32 = 0.25;

struct Harness {
    app: App,
    now: Instant,
    entity: Entity,
}

impl Harness {
    fn new(chain: AnimationChain<Key>) -> Self {
        let mut app = App::new();
        app.add_plugins(AnimationPlugin::<Foo>::new())
            .register_animation_key::<Foo, Key>()
            .insert_resource(Time::default());
        let now = Instant::now();
        app.world.resource_mut::<Time>().update_with_instant(now);
        let selector = AnimationSelectorBuilder::new()
            .add(
                Key::Pulse,
                timeline!(Foo 1s from { x: 0.0 } 50% { x: 20.0 } to { x: 10.0 }),
            )
            .add(
                Key::Other,
                timeline!(Foo 1s from { x: 0.0 } 50% { x: 20.0 } to { x: 10.0 }),
            )
            .build();
        let entity = app
            .world
            .spawn((Foo::default(), Animator::<Foo>::new(), selector, chain))
            .id();
        Harness { app, now, entity }
    }

    fn step(&mut self) {
        self.now += Duration::from_secs_f32(DT);
        let now = self.now;
        self.app.world.resource_mut::<Time>().update_with_instant(now);
        self.app.update();
    }

    fn state(&self) -> AnimationState {
        self.app.world.get::<Animator<Foo>>(self.entity).unwrap().state()
    }

    fn x(&self) -> f32 {
        self.app.world.get::<Foo>(self.entity).unwrap().x
    }

    /// Runs `max_frames` frames; returns how many times the animator entered `Ended` and the
    /// largest x seen on the frames after the first end.
    fn count_ends(&mut self, max_frames: usize) -> (usize, f32) {
        let mut ends = 0;
        let mut max_x_after_first_end = f32::MIN;
        let mut previous = self.state();
        for _ in 0..max_frames {
            self.step();
            let state = self.state();
            if state == AnimationState::Ended && previous != AnimationState::Ended {
                ends += 1;
            } else if ends > 0 {
                max_x_after_first_end = max_x_after_first_end.max(self.x());
            }
            previous = state;
        }
        (ends, max_x_after_first_end)
    }
}

/// Control: the cycle Pulse -> Other -> Pulse (two identical timelines) loops as expected.
#[test]
fn control_cycle_of_length_two_loops() {
    let chain = AnimationChainBuilder::new()
        .add(Key::Pulse, Key::Other)
        .add(Key::Other, Key::Pulse)
        .build();
    let mut h = Harness::new(chain);
    let (ends, max_x) = h.count_ends(40); // 10 s
    assert!(ends >= 4, "a two-key cycle replays on every end; saw {ends} ends in 10 s");
    assert!((max_x - 20.0).abs() < 1e-3);
}

#[test]
fn cycle_of_length_one_loops() {
    let chain = AnimationChainBuilder::new().add(Key::Pulse, Key::Pulse).build();
    let mut h = Harness::new(chain);
    let (ends, max_x) = h.count_ends(40); // 10 s
    assert!(
        ends >= 4,
        "the animator ended while Pulse was active and the chain maps Pulse -> Pulse, so the \
         selector moves to Pulse and that animation must play (AnimationChain::next_keys: \"it \
         will automatically be assigned the value for that key, and the animator will be \
         reset\"); but in 10 s the 1 s animation ended only {ends} time(s), the animator is {:?} \
         and after the first end x never left {} (largest x seen: {max_x}; a replay passes \
         through 20)",
        h.state(),
        h.x(),
    );
}
