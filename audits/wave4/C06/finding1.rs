//! Property: animation is frame-rate independent - only the total elapsed time matters.
//! advance(a) followed by advance(b) must give the same values as advance(a + b), up to float
//! rounding.
//!
//! The animator converts every single frame time to a `Duration`, i.e. rounds every frame to a
//! whole number of nanoseconds, before it adds it to the time in state. The rounding error of
//! one frame (up to half a nanosecond) is not carried over, so it accumulates linearly with the
//! number of frames: frames of 1.5 ns are counted as 2 ns each (+33 %), frames of 1.4 ns as 1 ns
//! each (-29 %), and frames below 0.5 ns are counted as nothing at all - an animator driven by
//! such frames never moves, however much time is delivered in total.

use mina::prelude::*;

#[derive(Clone, Debug, Default, Eq, PartialEq, State)]
enum St {
    #[default]
    Run,
}

#[derive(Animate, Clone, Debug, Default, PartialEq)]
struct Style {
    x: f32,
}

/// x runs linearly from 0 to 100 over `cycle` seconds.
fn animator(cycle: f32) -> impl StateAnimator<State = St, Values = Style> {
    StateAnimatorBuilder::new()
        .from_state(St::Run)
        .on(
            St::Run,
            Style::timeline()
                .duration_seconds(cycle)
                .keyframe(Style::keyframe(0.0).x(0.0))
                .keyframe(Style::keyframe(1.0).x(100.0)),
        )
        .build()
}

/// Drives one animator with `count` frames of `frame` seconds and a second one with a single
/// frame of the same total; returns (x of the many-frames animator, its is_ended, x of the
/// single-frame animator, its is_ended, x demanded by the total time).
fn compare(cycle: f32, frame: f32, count: u32) -> (f32, bool, f32, bool, f32) {
    let total = frame as f64 * count as f64;
    let mut many = animator(cycle);
    for _ in 0..count {
        many.advance(frame);
    }
    let mut one = animator(cycle);
    one.advance(total as f32);
    let demanded = (100.0 * total / cycle as f64).min(100.0) as f32;
    (many.current_values().x, many.is_ended(), one.current_values().x, one.is_ended(), demanded)
}

#[test]
fn a_thousand_frames_of_one_and_a_half_nanoseconds_are_one_and_a_half_microseconds() {
    // 3 us timeline, 1000 frames of 1.5 ns = 1.5 us = half of the timeline.
    let (many, _, one, _, demanded) = compare(3e-6, 1.5e-9, 1000);
    assert!(
        (one - demanded).abs() < 0.01,
        "sanity: a single advance(1.5e-6) on a 3e-6 s timeline shows x = {one}, demanded {demanded}"
    );
    assert!(
        (many - one).abs() < 0.01,
        "1000 x advance(1.5e-9) must show the same value as advance(1.5e-6) (x = {one}, the time \
         demands {demanded}), but the animator shows x = {many}: every 1.5 ns frame was counted as 2 ns"
    );
}

#[test]
fn a_thousand_frames_of_one_point_four_nanoseconds_are_not_one_microsecond() {
    // 3 us timeline, 1000 frames of 1.4 ns = 1.4 us.
    let (many, _, one, _, demanded) = compare(3e-6, 1.4e-9, 1000);
    assert!(
        (many - one).abs() < 0.01,
        "1000 x advance(1.4e-9) must show the same value as advance(1.4e-6) (x = {one}, the time \
         demands {demanded}), but the animator shows x = {many}: every 1.4 ns frame was counted as 1 ns"
    );
}

#[test]
fn many_tiny_frames_before_one_normal_frame_are_not_lost() {
    // The reverse mix of magnitudes: 20000 frames of 0.4 ns (8 us in total) and then one frame of
    // 1 us, on a 10 us timeline: 9 us in total, x must be 90.
    let mut many = animator(1e-5);
    for _ in 0..20000 {
        many.advance(4e-10);
    }
    many.advance(1e-6);
    let mut one = animator(1e-5);
    one.advance(9e-6);
    assert!(
        (many.current_values().x - one.current_values().x).abs() < 0.01,
        "20000 x advance(4e-10) + advance(1e-6) must show the same value as advance(9e-6) \
         (x = {}), but the animator shows x = {}: the 8 us delivered in small frames were swallowed",
        one.current_values().x,
        many.current_values().x
    );
}

#[test]
fn frames_below_half_a_nanosecond_still_make_time_pass() {
    // 3 us timeline driven with 10000 frames of 0.4 ns = 4 us: the animation must be over.
    let (many, many_ended, one, one_ended, demanded) = compare(3e-6, 4e-10, 10000);
    assert!(one_ended && one == 100.0, "sanity: advance(4e-6) ends the 3e-6 s timeline");
    assert!(
        many_ended && (many - demanded).abs() < 0.01,
        "10000 x advance(4e-10) is 4e-6 s, more than the whole 3e-6 s timeline: the animator must \
         report is_ended() and show x = {demanded} like after advance(4e-6) (x = {one}), but it \
         shows x = {many}, is_ended() = {many_ended}: every frame was counted as zero time"
    );
}
