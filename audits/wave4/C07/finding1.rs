//! Property C07: `is_ended` is true exactly when the time spent in the state is at least the
//! timeline's total duration, and the values then rest at the terminal values.
//!
//! The animator keeps the time in state as a `std::time::Duration` and saturates it at
//! `Duration::MAX` (about 1.8e19 s). A finite timeline whose total duration lies beyond that -
//! every such total is an ordinary, exactly representable `f32` - can therefore never be
//! completed: the clock stops at 1.8e19 s, `is_ended()` stays false for good and the values
//! freeze part-way through the animation, whatever amounts the animator is advanced by.

use mina::prelude::*;

#[derive(Clone, Debug, Default, Eq, PartialEq, State)]
enum S {
    #[default]
    Run,
}

#[derive(Animate, Clone, Debug, Default, PartialEq)]
struct V {
    x: f32,
}

fn animator(
    cycle: f32,
    delay: f32,
    repeat: Repeat,
) -> impl StateAnimator<State = S, Values = V> {
    StateAnimatorBuilder::new()
        .from_state(S::Run)
        .from_values(V { x: 0.0 })
        .on(
            S::Run,
            V::timeline()
                .duration_seconds(cycle)
                .delay_seconds(delay)
                .repeat(repeat)
                .keyframe(V::keyframe(0.0).x(0.0))
                .keyframe(V::keyframe(1.0).x(100.0)),
        )
        .build()
}

/// One cycle of 1e20 s, advanced by exactly 1e20 s (an advance landing on the end instant), then
/// by 1e20 s a few more times, then by 0.
#[test]
fn a_long_timeline_ends_when_its_duration_has_been_spent() {
    let mut a = animator(1.0e20, 0.0, Repeat::None);
    a.advance(1.0e20);
    assert!(
        a.is_ended(),
        "the property demands is_ended() after advance(1e20) on a timeline of 1e20 s (time in \
         state = total duration); the library reports false, x = {} (terminal value 100)",
        a.current_values().x
    );
    for _ in 0..5 {
        a.advance(1.0e20);
    }
    a.advance(0.0);
    assert!(
        a.is_ended(),
        "6e20 s spent in a state whose timeline lasts 1e20 s: the property demands is_ended(); \
         the library reports false, x = {} - the animator is stuck there forever",
        a.current_values().x
    );
    assert_eq!(a.current_values().x.to_bits(), 100.0f32.to_bits());
}

/// The largest advance amount there is does not help either.
#[test]
fn a_long_timeline_ends_under_the_largest_advance() {
    let mut a = animator(2.0e19, 0.0, Repeat::None);
    a.advance(f32::MAX);
    assert!(
        a.is_ended(),
        "the property demands is_ended() after advance(f32::MAX) on a timeline of 2e19 s; the \
         library reports false, x = {} (terminal value 100)",
        a.current_values().x
    );
}

/// Delay and repetitions count toward the total in the same way. All numbers are powers of two, so
/// every product and sum is exact: cycles of 2^33 s, played 2^30 times (2^63 s), after a delay of
/// 2^64 s: 1.5 * 2^64 s (about 2.77e19 s) in total. The animator is advanced by 2^65 s.
#[test]
fn a_long_delay_and_many_repetitions_end_too() {
    let cycle = 8_589_934_592.0f32; // 2^33
    let delay = 18_446_744_073_709_551_616.0f32; // 2^64
    let mut a = animator(cycle, delay, Repeat::Times((1 << 30) - 1));
    a.advance(36_893_488_147_419_103_232.0); // 2^65
    assert!(
        a.is_ended(),
        "2^65 s (3.69e19 s) spent in a state whose timeline lasts 1.5 * 2^64 s (2.77e19 s): the \
         property demands is_ended(); the library reports false, x = {} (terminal value 100)",
        a.current_values().x
    );
}
