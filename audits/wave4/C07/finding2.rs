//! Property C07: `is_ended` is true exactly when the time spent in the state is at least the
//! timeline's total duration, and the values then rest at the terminal values.
//!
//! The animator keeps the time in state as a `std::time::Duration` and converts every advance
//! amount to whole nanoseconds on its own (`Duration::from_secs_f32`, round to nearest). Whatever
//! part of an advance amount is not a whole number of nanoseconds is thrown away - or invented -
//! on every call, and the errors add up without bound: an animator driven by advances below half a
//! nanosecond never moves and never ends, however many of them it receives, and one driven by
//! advances of 1.6 ns runs 25 % fast and reports the end long before the time is up.

use mina::prelude::*;

#[derive(Clone, Debug, Default, Eq, PartialEq, State)]
enum S {
    #[default]
    Run,
}

#[derive(Animate, Clone, Debug, Default, PartialEq)]
struct V {
    x: f32,
}

fn animator(cycle: f32, repeat: Repeat) -> impl StateAnimator<State = S, Values = V> {
    StateAnimatorBuilder::new()
        .from_state(S::Run)
        .from_values(V { x: 0.0 })
        .on(
            S::Run,
            V::timeline()
                .duration_seconds(cycle)
                .repeat(repeat)
                .keyframe(V::keyframe(0.0).x(0.0))
                .keyframe(V::keyframe(1.0).x(100.0)),
        )
        .build()
}

/// 20 ns timeline, 1000 advances of 0.4 ns: 400 ns have been spent in the state, twenty times the
/// total duration.
#[test]
fn many_small_advances_reach_the_end() {
    let mut a = animator(2.0e-8, Repeat::None);
    let dt = 4.0e-10f32;
    let mut spent = 0.0f64;
    for _ in 0..1000 {
        a.advance(dt);
        spent += dt as f64;
    }
    assert!(
        a.is_ended(),
        "the property demands is_ended() once the time in the state ({spent:e} s) is at least the \
         total duration (2e-8 s); the library still reports is_ended() = false with x = {} \
         (terminal value 100) - every advance was rounded to 0 ns",
        a.current_values().x
    );
    assert_eq!(
        a.current_values().x.to_bits(),
        100.0f32.to_bits(),
        "the property demands the terminal value x = 100 after the end; the library shows x = {}",
        a.current_values().x
    );
}

/// The same with a 1 microsecond timeline repeated twice (3 us in total) and 20000 advances of
/// 0.45 ns = 9 us.
#[test]
fn many_small_advances_reach_the_end_of_a_repeated_timeline() {
    let mut a = animator(1.0e-6, Repeat::Times(2));
    let dt = 4.5e-10f32;
    let mut spent = 0.0f64;
    for _ in 0..20000 {
        a.advance(dt);
        spent += dt as f64;
    }
    assert!(
        a.is_ended(),
        "the property demands is_ended() once the time in the state ({spent:e} s) is at least the \
         total duration (3e-6 s); the library reports is_ended() = false, x = {}",
        a.current_values().x
    );
}

/// 30 ns timeline driven by advances of 1.6 ns. After 15 of them 24 ns have been spent in the
/// state - 80 % of the total duration - so the animation must not be over.
#[test]
fn is_not_ended_before_the_time_is_up() {
    let mut a = animator(3.0e-8, Repeat::None);
    let dt = 1.6e-9f32;
    let mut spent = 0.0f64;
    for _ in 0..15 {
        a.advance(dt);
        spent += dt as f64;
    }
    assert!(
        !a.is_ended(),
        "the property demands is_ended() = false while the time in the state ({spent:e} s) is \
         below the total duration (3e-8 s); the library reports is_ended() = true with x = {} \
         (80 expected) - every advance of 1.6 ns was counted as 2 ns",
        a.current_values().x
    );
}
