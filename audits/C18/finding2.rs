//! Property C18 (Bevy Animator): "each state change is announced by one event carrying the state
//! the animator has at the end of that frame".
//!
//! NOTE: this one needs an `AnimationSelector` (registered through `register_animation_key` in
//! bevy/src/lib.rs) to re-target the animator; it is the only public way to take the timeline away
//! from an `Animator`.
//!
//! When the selector's key is switched to a key that has no timeline, the enabled animator goes
//! from Playing (or Ended) to None and stays there, but no `AnimationStateChanged` is ever sent,
//! although `animate` contains a branch that is meant to announce exactly this change.
//!
//! System order: the plugin itself pins `select_animation` before `animate`; there is no
//! `AnimationChain` on the entity, so `chain_animations` does nothing. No other order matters.

use bevy::prelude::*;
use bevy_mina::prelude::*;
use mina::prelude::*;
use std::time::{Duration, Instant};

#[derive(Animate, Component, Clone, Debug, Default, PartialEq)]
struct Thing {
    x: f32,
}

const FRAME: Duration = Duration::from_millis(250);

struct Harness {
    app: App,
    last: Instant,
    entity: Entity,
}

impl Harness {
    fn new() -> Self {
        let mut app = App::new();
        app.insert_resource(Time::default());
        app.add_plugins(AnimationPlugin::<Thing>::new());
        app.register_animation_key::<Thing, u8>();
        let last = Instant::now();
        app.world.resource_mut::<Time>().update_with_instant(last);
        let entity = app
            .world
            .spawn((
                Thing { x: 0.0 },
                Animator::<Thing>::new(),
                AnimationSelectorBuilder::<u8, Thing>::new()
                    .add(
                        0,
                        Thing::timeline()
                            .duration_seconds(1.0)
                            .keyframe(Thing::keyframe(0.0).x(0.0))
                            .keyframe(Thing::keyframe(1.0).x(10.0))
                            .build(),
                    )
                    .build(),
            ))
            .id();
        Self { app, last, entity }
    }

    fn frame(&mut self) -> Vec<AnimationState> {
        self.last += FRAME;
        let now = self.last;
        self.app.world.resource_mut::<Time>().update_with_instant(now);
        self.app.update();
        self.app
            .world
            .resource_mut::<Events<AnimationStateChanged>>()
            .drain()
            .map(|e| e.state)
            .collect()
    }

    fn state(&self) -> AnimationState {
        self.app.world.get::<Animator<Thing>>(self.entity).unwrap().state()
    }

    fn select(&mut self, key: u8) {
        self.app
            .world
            .get_mut::<AnimationSelector<u8, Thing>>(self.entity)
            .unwrap()
            .timeline_key = key;
    }
}

fn check(frames_before_switch: usize, expected_before: AnimationState) {
    let mut h = Harness::new();
    for _ in 0..frames_before_switch {
        h.frame();
    }
    assert_eq!(h.state(), expected_before, "precondition");

    h.select(7); // no timeline is registered for key 7
    let mut announced = vec![];
    let mut states = vec![];
    for _ in 0..4 {
        announced.extend(h.frame());
        states.push(h.state());
    }
    assert!(
        states.iter().all(|s| *s == AnimationState::None),
        "the animator lost its timeline, so its state is None: {states:?}"
    );
    assert_eq!(
        announced,
        vec![AnimationState::None],
        "the enabled animator's state changed {expected_before:?} -> None, which must be announced \
         by exactly one AnimationStateChanged carrying None; events sent in the 4 frames after the \
         change: {announced:?}"
    );
}

#[test]
fn losing_the_timeline_while_playing_must_be_announced() {
    check(3, AnimationState::Playing);
}

#[test]
fn losing_the_timeline_after_the_end_must_be_announced() {
    check(8, AnimationState::Ended);
}
