//! Property C18 (Bevy Animator): "Whenever it reports Ended the target component holds the
//! timeline's terminal values", "becomes Ended ... never before [the position reaches the total
//! duration]", "is never Ended for infinitely repeating timelines".
//!
//! `Animator::set_timeline` on an animator that has already ended leaves the animator stuck in
//! `Ended` with the *old* timeline's values in the component: the new timeline is never evaluated,
//! no event is sent, and this also happens when the new timeline is longer than the current
//! position or repeats infinitely. Swapping one frame earlier (while still `Playing`) works.
//!
//! Only `animate::<Thing>` is registered, so there is no system-order dependence.

use bevy::prelude::*;
use bevy_mina::prelude::*;
use mina::prelude::*;
use std::time::{Duration, Instant};

#[derive(Animate, Component, Clone, Debug, Default, PartialEq)]
struct Thing {
    x: f32,
}

struct Harness {
    app: App,
    last: Instant,
    entity: Entity,
}

impl Harness {
    fn new(animator: Animator<Thing>) -> Self {
        let mut app = App::new();
        app.insert_resource(Time::default());
        app.add_plugins(AnimationPlugin::<Thing>::new());
        let last = Instant::now();
        app.world.resource_mut::<Time>().update_with_instant(last);
        let entity = app.world.spawn((Thing { x: -1.0 }, animator)).id();
        Self { app, last, entity }
    }

    /// Advances the clock by `delta`, runs one frame and returns the states announced in it.
    fn frame(&mut self, delta: Duration) -> Vec<AnimationState> {
        self.last += delta;
        let now = self.last;
        self.app.world.resource_mut::<Time>().update_with_instant(now);
        self.app.update();
        self.app
            .world
            .resource_mut::<Events<AnimationStateChanged>>()
            .drain()
            .map(|e| e.state)
            .collect()
    }

    fn state(&self) -> AnimationState {
        self.app.world.get::<Animator<Thing>>(self.entity).unwrap().state()
    }

    fn position(&self) -> Duration {
        self.app.world.get::<Animator<Thing>>(self.entity).unwrap().timeline_position
    }

    fn x(&self) -> f32 {
        self.app.world.get::<Thing>(self.entity).unwrap().x
    }

    fn set_timeline(&mut self, timeline: impl Timeline<Target = Thing> + Clone + Send + Sync + 'static) {
        self.app
            .world
            .get_mut::<Animator<Thing>>(self.entity)
            .unwrap()
            .set_timeline(timeline);
    }
}

const FRAME: Duration = Duration::from_millis(250);

fn first_timeline() -> ThingTimeline {
    // 1 s, 0 -> 10
    Thing::timeline()
        .duration_seconds(1.0)
        .keyframe(Thing::keyframe(0.0).x(0.0))
        .keyframe(Thing::keyframe(1.0).x(10.0))
        .build()
}

/// Runs the first timeline until the animator has reported `Ended` (position 1 s, x = 10).
fn run_first_timeline_to_end() -> Harness {
    let mut h = Harness::new(Animator::with_timeline(first_timeline()));
    let mut ended_events = 0;
    for _ in 0..8 {
        ended_events += h
            .frame(FRAME)
            .iter()
            .filter(|s| **s == AnimationState::Ended)
            .count();
    }
    assert_eq!(h.state(), AnimationState::Ended, "precondition: first run has ended");
    assert_eq!(ended_events, 1, "precondition: first run announced exactly one Ended");
    assert_eq!(h.x(), 10.0, "precondition: first run landed on its terminal value");
    assert_eq!(h.position(), Duration::from_secs(1));
    h
}

/// The documented hot-swap use case: a timeline of *equal* duration.
#[test]
fn hot_swap_of_equal_duration_after_the_end_must_land_on_the_new_terminal_values() {
    // same timing as the first timeline, other values: 50 -> 99
    let second = || {
        Thing::timeline()
            .duration_seconds(1.0)
            .keyframe(Thing::keyframe(0.0).x(50.0))
            .keyframe(Thing::keyframe(1.0).x(99.0))
            .build()
    };

    // Control: the same swap one frame before the end (still Playing) lands on 99.
    let mut control = Harness::new(Animator::with_timeline(first_timeline()));
    for _ in 0..4 {
        control.frame(FRAME);
    }
    assert_eq!(control.state(), AnimationState::Playing);
    control.set_timeline(second());
    for _ in 0..4 {
        control.frame(FRAME);
    }
    assert_eq!(control.state(), AnimationState::Ended);
    assert_eq!(control.x(), 99.0, "control: swapped while Playing, lands on the new terminal value");

    // Same swap, one frame later (the animator has just reported Ended).
    let mut h = run_first_timeline_to_end();
    h.set_timeline(second());
    for _ in 0..8 {
        h.frame(FRAME);
    }
    assert_eq!(h.state(), AnimationState::Ended);
    assert_eq!(
        h.x(),
        99.0,
        "the animator reports Ended with a timeline whose terminal value is x = 99 (position {:?} \
         >= its total duration 1 s), so the component must hold 99; the library never evaluated the \
         new timeline and left x = {}",
        h.position(),
        h.x()
    );
}

#[test]
fn an_animator_with_an_infinitely_repeating_timeline_must_never_be_ended() {
    let mut h = run_first_timeline_to_end();
    h.set_timeline(
        Thing::timeline()
            .duration_seconds(1.0)
            .repeat(Repeat::Infinite)
            .keyframe(Thing::keyframe(0.0).x(50.0))
            .keyframe(Thing::keyframe(1.0).x(99.0))
            .build(),
    );
    let mut states = vec![];
    let mut xs = vec![];
    let before = h.position();
    for _ in 0..8 {
        h.frame(FRAME);
        states.push(h.state());
        xs.push(h.x());
    }
    assert!(
        states.iter().all(|s| *s != AnimationState::Ended),
        "an infinitely repeating timeline can never be Ended (AnimationState::Ended is documented \
         as 'only possible for timelines whose repeat is not Infinite'); after set_timeline(infinite) \
         the enabled animator reported {:?} over 8 frames, position stayed {:?} -> {:?}, x = {:?}",
        states,
        before,
        h.position(),
        xs
    );
}

#[test]
fn hot_swap_to_a_longer_timeline_must_continue_from_the_current_position() {
    let mut h = run_first_timeline_to_end();
    // 4 s, 0 -> 400: at the retained position of 1 s it is a quarter of the way (x = 100).
    h.set_timeline(
        Thing::timeline()
            .duration_seconds(4.0)
            .keyframe(Thing::keyframe(0.0).x(0.0))
            .keyframe(Thing::keyframe(1.0).x(400.0))
            .build(),
    );
    let mut announced = vec![];
    for _ in 0..4 {
        announced.extend(h.frame(FRAME));
    }
    // 4 enabled frames of 250 ms after the swap: the position must have grown, the animator must
    // not be Ended before the position reaches the total duration (4 s).
    assert!(
        !(h.state() == AnimationState::Ended && h.position() < Duration::from_secs(4)),
        "Ended is only allowed once the position has reached the total duration (4 s); the library \
         reports {:?} at position {:?}, x = {} (old timeline's end value), events after the swap: {:?}",
        h.state(),
        h.position(),
        h.x(),
        announced
    );
    assert_eq!(
        h.position(),
        Duration::from_secs(2),
        "an enabled, not-ended animator's position grows by each frame's delta"
    );
}
