//! A selector whose entity gets the animated component `T` after the selection system's first look
//! never drives the animator: `select_animation` needs `&T` to match the entity, and by the time
//! it matches, `Changed<AnimationSelector>` is no longer true.

use bevy::prelude::*;
use bevy::utils::Instant;
use bevy_mina::prelude::*;
use mina::prelude::*;
use std::time::Duration;

#[derive(Animate, Clone, Component, Debug, Default, PartialEq)]
struct Panel {
    x: f32,
}

#[derive(Clone, Copy, Debug, Default, Eq, Hash, PartialEq)]
enum Key {
    #[default]
    A,
    B,
}

struct Harness {
    app: App,
    now: Instant,
}

impl Harness {
    fn new() -> Self {
        let mut app = App::new();
        app.add_plugins(AnimationPlugin::<Panel>::new())
            .register_animation_key::<Panel, Key>();
        let mut time = Time::default();
        let now = Instant::now();
        time.update_with_instant(now);
        app.insert_resource(time);
        Harness { app, now }
    }

    fn frames(&mut self, count: usize, delta_secs: f32) {
        for _ in 0..count {
            self.now += Duration::from_secs_f32(delta_secs);
            let now = self.now;
            self.app
                .world
                .resource_mut::<Time>()
                .update_with_instant(now);
            self.app.update();
        }
    }
}

fn selector(initial: Key) -> AnimationSelector<Key, Panel> {
    AnimationSelectorBuilder::new()
        .add(Key::A, timeline!(Panel 1s from { x: 0.0 } to { x: 10.0 }))
        .add(Key::B, timeline!(Panel 1s from { x: 100.0 } to { x: 200.0 }))
        .initial_key(initial)
        .build()
}

#[test]
fn component_inserted_one_frame_after_the_selector_is_animated() {
    let mut h = Harness::new();
    let e = h
        .app
        .world
        .spawn((Animator::<Panel>::new(), selector(Key::B)))
        .id();
    h.frames(1, 0.1);
    h.app.world.entity_mut(e).insert(Panel { x: 5.0 });
    h.frames(15, 0.1); // 1.5 s for a 1 s timeline

    let x = h.app.world.get::<Panel>(e).unwrap().x;
    let state = h.app.world.get::<Animator<Panel>>(e).unwrap().state();
    assert!(
        (x - 200.0).abs() < 1e-3 && state == AnimationState::Ended,
        "the selector's key is B (1 s, x: 100 -> 200); 1.5 s after the entity became complete \
         the Animator must have played it (x = 200, Ended); the library has x = {x} and state \
         {state:?} - the animator never received a timeline"
    );
}
