//! A selector whose entity gets its `Animator` after the selection system has looked at it never
//! drives that animator: the key counts as "acted on" although nothing was acted on.
//!
//! Independent of the (unordered) chain/select system order: every assertion is made many frames
//! after the event it depends on.

use bevy::prelude::*;
use bevy::utils::Instant;
use bevy_mina::prelude::*;
use mina::prelude::*;
use std::time::Duration;

#[derive(Animate, Clone, Component, Debug, Default, PartialEq)]
struct Panel {
    x: f32,
}

#[derive(Clone, Copy, Debug, Default, Eq, Hash, PartialEq)]
enum Key {
    #[default]
    A,
    B,
}

struct Harness {
    app: App,
    now: Instant,
}

impl Harness {
    fn new() -> Self {
        let mut app = App::new();
        app.add_plugins(AnimationPlugin::<Panel>::new())
            .register_animation_key::<Panel, Key>();
        let mut time = Time::default();
        let now = Instant::now();
        time.update_with_instant(now);
        app.insert_resource(time);
        Harness { app, now }
    }

    fn frames(&mut self, count: usize, delta_secs: f32) {
        for _ in 0..count {
            self.now += Duration::from_secs_f32(delta_secs);
            let now = self.now;
            self.app
                .world
                .resource_mut::<Time>()
                .update_with_instant(now);
            self.app.update();
        }
    }

    fn x(&self, e: Entity) -> f32 {
        self.app.world.get::<Panel>(e).unwrap().x
    }

    fn state(&self, e: Entity) -> AnimationState {
        self.app.world.get::<Animator<Panel>>(e).unwrap().state()
    }

    fn key(&self, e: Entity) -> Key {
        self.app
            .world
            .get::<AnimationSelector<Key, Panel>>(e)
            .unwrap()
            .timeline_key
    }
}

fn selector() -> AnimationSelector<Key, Panel> {
    AnimationSelectorBuilder::new()
        .add(Key::A, timeline!(Panel 1s from { x: 0.0 } to { x: 10.0 }))
        .add(Key::B, timeline!(Panel 1s from { x: 100.0 } to { x: 200.0 }))
        .build()
}

/// The selector is spawned two frames before the Animator. From then on the entity is complete,
/// but the timeline of the selector's key is never handed to the animator.
#[test]
fn animator_inserted_after_the_selector_plays_the_selected_timeline() {
    let mut h = Harness::new();
    let e = h.app.world.spawn((Panel { x: 5.0 }, selector())).id();
    h.frames(2, 0.1);
    h.app.world.entity_mut(e).insert(Animator::<Panel>::new());
    h.frames(15, 0.1); // 1.5 s for a 1 s timeline

    assert_eq!(
        h.state(e),
        AnimationState::Ended,
        "the selector's key is A and A has a 1 s timeline, so 1.5 s after the Animator arrived it \
         must have played that timeline to its end; the library left the animator in state {:?}",
        h.state(e)
    );
    assert!(
        (h.x(e) - 10.0).abs() < 1e-3,
        "the component must have followed timeline A to its last keyframe x = 10; the library \
         left it at x = {}",
        h.x(e)
    );
}

/// Same, with a genuine key change: the key is changed to B while there is no Animator yet. The
/// change is swallowed for good; even assigning B again later cannot start it.
#[test]
fn key_changed_before_the_animator_arrived_is_played_once_it_is_there() {
    let mut h = Harness::new();
    let e = h.app.world.spawn((Panel { x: 5.0 }, selector())).id();
    h.frames(1, 0.1);
    h.app
        .world
        .get_mut::<AnimationSelector<Key, Panel>>(e)
        .unwrap()
        .timeline_key = Key::B;
    h.frames(1, 0.1);
    h.app.world.entity_mut(e).insert(Animator::<Panel>::new());
    h.frames(15, 0.1);

    assert!(
        (h.x(e) - 200.0).abs() < 1e-3 && h.state(e) == AnimationState::Ended,
        "the key was changed to B (1 s, x: 100 -> 200, blended from x = 5): 1.5 s after the \
         Animator arrived the component must be at x = 200 and the animator Ended; the library \
         has x = {} and state {:?}",
        h.x(e),
        h.state(e)
    );
}

/// The stale "acted on" mark also makes the chain fire for a key that never played: the late
/// Animator brings its own 0.3 s timeline, that one ends, and the chain takes this for the end of
/// key A (whose 1 s timeline has not run for a single frame).
#[test]
fn chain_does_not_fire_for_a_key_whose_timeline_never_played() {
    let mut h = Harness::new();
    let e = h
        .app
        .world
        .spawn((
            Panel { x: 5.0 },
            selector(),
            AnimationChainBuilder::new().add(Key::A, Key::B).build(),
        ))
        .id();
    h.frames(2, 0.1);
    h.app
        .world
        .entity_mut(e)
        .insert(Animator::<Panel>::with_timeline(
            timeline!(Panel 0.3s from { x: 50.0 } to { x: 60.0 }),
        ));
    h.frames(8, 0.1); // 0.8 s: less than the 1 s that key A's timeline lasts

    assert_eq!(
        h.key(e),
        Key::A,
        "0.8 s after the Animator arrived the 1 s timeline of key A cannot have ended, so the \
         chain A -> B must not have fired; the library moved the selector to {:?} (x = {})",
        h.key(e),
        h.x(e)
    );
}
