//! An end that found no chain entry is never marked as consumed, so the chain fires for it later,
//! when some OTHER animator on the entity ends.
//!
//! Independent of the (unordered) chain/select system order: every assertion is made many frames
//! after the event it depends on.

use bevy::prelude::*;
use bevy::utils::Instant;
use bevy_mina::prelude::*;
use mina::prelude::*;
use std::time::Duration;

#[derive(Animate, Clone, Component, Debug, Default, PartialEq)]
struct Panel {
    x: f32,
}

#[derive(Animate, Clone, Component, Debug, Default, PartialEq)]
struct Glow {
    y: f32,
}

#[derive(Clone, Copy, Debug, Default, Eq, Hash, PartialEq)]
enum Key {
    #[default]
    A,
    B,
}

struct Harness {
    app: App,
    now: Instant,
}

impl Harness {
    fn new() -> Self {
        let mut app = App::new();
        app.add_plugins((
            AnimationPlugin::<Panel>::new(),
            AnimationPlugin::<Glow>::new(),
        ))
        .register_animation_key::<Panel, Key>();
        let mut time = Time::default();
        let now = Instant::now();
        time.update_with_instant(now);
        app.insert_resource(time);
        Harness { app, now }
    }

    fn frames(&mut self, count: usize, delta_secs: f32) {
        for _ in 0..count {
            self.now += Duration::from_secs_f32(delta_secs);
            let now = self.now;
            self.app
                .world
                .resource_mut::<Time>()
                .update_with_instant(now);
            self.app.update();
        }
    }

    fn x(&self, e: Entity) -> f32 {
        self.app.world.get::<Panel>(e).unwrap().x
    }

    fn panel_state(&self, e: Entity) -> AnimationState {
        self.app.world.get::<Animator<Panel>>(e).unwrap().state()
    }

    fn glow_state(&self, e: Entity) -> AnimationState {
        self.app.world.get::<Animator<Glow>>(e).unwrap().state()
    }

    fn key(&self, e: Entity) -> Key {
        self.app
            .world
            .get::<AnimationSelector<Key, Panel>>(e)
            .unwrap()
            .timeline_key
    }
}

fn selector() -> AnimationSelector<Key, Panel> {
    AnimationSelectorBuilder::new()
        .add(Key::A, timeline!(Panel 1s from { x: 0.0 } to { x: 10.0 }))
        .add(Key::B, timeline!(Panel 1s from { x: 100.0 } to { x: 200.0 }))
        .build()
}

fn glow_3s() -> Animator<Glow> {
    Animator::with_timeline(timeline!(Glow 3s from { y: 0.0 } to { y: 1.0 }))
}

/// Chain edited at run time. Key A ends at 1 s while the chain has no entry for A (correctly
/// nothing happens). At 1.5 s the entry A -> B is added (nothing happens either). At 3 s the
/// unrelated Animator<Glow> ends - and now the selector jumps to B.
#[test]
fn end_of_another_animator_does_not_fire_the_chain_after_a_run_time_edit() {
    let mut h = Harness::new();
    let e = h
        .app
        .world
        .spawn((
            Panel { x: 5.0 },
            Glow { y: 0.0 },
            Animator::<Panel>::new(),
            glow_3s(),
            selector(),
            AnimationChain::<Key>::new(),
        ))
        .id();
    h.frames(15, 0.1);
    assert_eq!((h.key(e), h.panel_state(e)), (Key::A, AnimationState::Ended));

    h.app
        .world
        .get_mut::<AnimationChain<Key>>(e)
        .unwrap()
        .next_keys
        .insert(Key::A, Key::B);
    h.frames(10, 0.1); // t = 2.5 s
    let key_before = h.key(e);
    let x_before = h.x(e);
    assert_eq!(h.glow_state(e), AnimationState::Playing);

    h.frames(15, 0.1); // t = 4 s; Animator<Glow> ended at about 3 s
    assert_eq!(h.glow_state(e), AnimationState::Ended);
    assert_eq!(
        h.key(e),
        key_before,
        "between 2.5 s and 4 s the only thing that happened on the entity is that Animator<Glow> \
         ended; the chain must never fire because some other animator ended, so the selector for \
         Panel must still be on {:?}; the library moved it to {:?}",
        key_before,
        h.key(e)
    );
    assert!(
        (h.x(e) - x_before).abs() < 1e-3,
        "Panel was at rest at x = {} and nothing concerning it happened; the library moved it to \
         x = {}",
        x_before,
        h.x(e)
    );
}

/// Same defect without touching `next_keys`: the AnimationChain component is added after key A
/// has ended. Nothing happens when it is added; the chain fires when Animator<Glow> ends.
#[test]
fn end_of_another_animator_does_not_fire_a_chain_that_was_added_after_the_end() {
    let mut h = Harness::new();
    let e = h
        .app
        .world
        .spawn((
            Panel { x: 5.0 },
            Glow { y: 0.0 },
            Animator::<Panel>::new(),
            glow_3s(),
            selector(),
        ))
        .id();
    h.frames(15, 0.1);
    assert_eq!((h.key(e), h.panel_state(e)), (Key::A, AnimationState::Ended));

    h.app
        .world
        .entity_mut(e)
        .insert(AnimationChainBuilder::new().add(Key::A, Key::B).build());
    h.frames(10, 0.1); // t = 2.5 s
    let key_before = h.key(e);
    assert_eq!(h.glow_state(e), AnimationState::Playing);

    h.frames(15, 0.1); // t = 4 s
    assert_eq!(h.glow_state(e), AnimationState::Ended);
    assert_eq!(
        h.key(e),
        key_before,
        "the end of Animator<Glow> must not advance the chain of the Panel selector (it was on \
         {:?} at 2.5 s); the library moved it to {:?}, x = {}",
        key_before,
        h.key(e),
        h.x(e)
    );
}
