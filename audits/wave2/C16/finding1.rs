//! animator!: the timeline of a multi-state arm ('A | B => ...') is built before the timelines of
//! all single-state arms, whatever the order in the block. The expressions of the block are
//! therefore not evaluated in source order, and an animator whose keyframe values come from
//! anything stateful (an id/slot allocator, a seeded RNG, an iterator) differs from the animator
//! the builder API produces for the same text.

use mina::prelude::*;

#[derive(Clone, Debug, Default, Eq, PartialEq, State)]
enum St {
    #[default]
    A,
    B,
    C,
}

#[derive(Animate, Clone, Debug, Default, PartialEq)]
struct Style {
    x: f32,
}

/// Hands out 100, 200, 300, ... - a stand-in for a seeded RNG or a layout slot allocator.
struct Slots(f32);

impl Slots {
    fn next(&mut self) -> f32 {
        self.0 += 100.0;
        self.0
    }
}

fn run(animator: &mut impl StateAnimator<State = St, Values = Style>) -> Vec<(St, f32)> {
    let mut seen = Vec::new();
    for state in [St::A, St::B, St::C] {
        animator.set_state(&state);
        animator.advance(1.0);
        seen.push((state, animator.current_values().x));
    }
    seen
}

#[test]
fn single_state_arm_written_before_a_multi_state_arm_is_built_first() {
    let mut slots = Slots(0.0);
    let mut from_macro = animator!(Style {
        St::A => 1s to { x: slots.next() },
        St::B | St::C => 1s to { x: slots.next() }
    });

    // The same block, arm by arm, with the builder API.
    let mut slots = Slots(0.0);
    let timeline_a = Style::timeline()
        .duration_seconds(1.0)
        .keyframe(Style::keyframe(1.0).x(slots.next()))
        .build();
    let timeline_bc = Style::timeline()
        .duration_seconds(1.0)
        .keyframe(Style::keyframe(1.0).x(slots.next()))
        .build();
    let mut from_builder = StateAnimatorBuilder::new()
        .on(St::A, timeline_a)
        .on(St::B, timeline_bc.clone())
        .on(St::C, timeline_bc)
        .build();

    let expected = run(&mut from_builder);
    assert_eq!(
        expected,
        vec![(St::A, 100.0), (St::B, 200.0), (St::C, 200.0)],
        "sanity: the builder evaluates the arms in the order they are written"
    );
    let actual = run(&mut from_macro);
    assert_eq!(
        actual, expected,
        "property: animator! must produce the animator the builder API would - arm A is written \
         first, so it gets the first slot (x -> 100) and 'B | C' the second (x -> 200). The \
         library built the 'B | C' timeline before the one of A: (state, x at the end) = {actual:?}"
    );
}

#[test]
fn default_clause_and_default_keyframes_do_not_matter_only_the_arm_order_does() {
    // Same defect with a default clause and a default keyframe in the block.
    let mut slots = Slots(0.0);
    let mut from_macro = animator!(Style {
        default(St::C, { x: 1.0 }),
        St::A => 0.5s to { x: slots.next() },
        St::B | St::C => 1s from default to { x: slots.next() }
    });
    from_macro.set_state(&St::A);
    from_macro.advance(0.5);
    let a = from_macro.current_values().x;
    from_macro.set_state(&St::B);
    from_macro.advance(1.0);
    let b = from_macro.current_values().x;
    assert_eq!(
        (a, b),
        (100.0, 200.0),
        "property: arms are built in source order, so A animates x to the first slot (100) and \
         'B | C' to the second (200); the library produced A -> {a}, B -> {b}"
    );
}
