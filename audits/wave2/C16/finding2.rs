//! animator!: a duration or delay written in milliseconds is not the duration the builder API gets
//! for the same time. The macro converts 'N ms' with two f32 operations at expansion time
//! (N as f32 * 0.001f32); 0.001f32 is not 1/1000, so for about 59% of all millisecond counts
//! (700ms, 900ms, 1500ms, 1800ms, ...) the timeline is one ulp LONGER than N/1000 seconds:
//! '1500ms' is 1.5000001 s, not 1.5 s. An animator that has been advanced by exactly the written
//! duration is still not ended, although the builder-made animator with duration_seconds(1.5) is.

use mina::prelude::*;

#[derive(Clone, Debug, Default, Eq, PartialEq, State)]
enum St {
    #[default]
    A,
    B,
}

#[derive(Animate, Clone, Debug, Default, PartialEq)]
struct Style {
    x: f32,
}

#[test]
fn animator_of_1500ms_is_ended_after_one_and_a_half_seconds() {
    let mut from_macro = animator!(Style {
        St::A => 1500ms from { x: 0.0 } to { x: 100.0 }
    });
    let mut from_builder = StateAnimatorBuilder::new()
        .on(
            St::A,
            Style::timeline()
                .duration_seconds(1.5)
                .keyframe(Style::keyframe(0.0).x(0.0))
                .keyframe(Style::keyframe(1.0).x(100.0)),
        )
        .build();

    // Three frames of half a second (exact in f32 and in Duration).
    for _ in 0..3 {
        from_macro.advance(0.5);
        from_builder.advance(0.5);
    }

    assert!(
        from_builder.is_ended() && from_builder.current_values().x == 100.0,
        "sanity: the builder-made animator (duration_seconds(1.5)) has ended at x = 100 after 1.5 s"
    );
    assert!(
        from_macro.is_ended(),
        "property: '1500ms' is 1.5 seconds, so after 1.5 s the animator must have ended exactly \
         like the builder-made one; the library reports is_ended() = false with x = {} (the \
         expansion passes duration_seconds(1.5000001))",
        from_macro.current_values().x
    );
}

#[test]
fn seconds_and_milliseconds_spell_the_same_timeline() {
    // The same time written in two ways inside one block must give the same timeline.
    let mut ms = animator!(Style {
        St::A => 700ms after 900ms to { x: 100.0 },
        St::B => 1800ms 2x to { x: 100.0 }
    });
    let mut s = animator!(Style {
        St::A => 0.7s after 0.9s to { x: 100.0 },
        St::B => 1.8s 2x to { x: 100.0 }
    });

    // State A: total = 0.9 + 0.7 s. Drive both with the same 0.1 s frames.
    let mut mismatch = None;
    for frame in 1..=20 {
        ms.advance(0.1);
        s.advance(0.1);
        if ms.is_ended() != s.is_ended() && mismatch.is_none() {
            mismatch = Some((frame, ms.is_ended(), s.is_ended(), ms.current_values().x));
        }
    }
    assert_eq!(
        mismatch, None,
        "property: '700ms after 900ms' and '0.7s after 0.9s' are the same timeline (the builder \
         reading of both is duration_seconds(0.7).delay_seconds(0.9)); first difference as \
         (frame, ended with ms, ended with s, x with ms)"
    );

    // State B: three cycles of 1.8 s = 5.4 s, driven with 0.6 s frames.
    ms.set_state(&St::B);
    s.set_state(&St::B);
    for _ in 0..9 {
        ms.advance(0.6);
        s.advance(0.6);
    }
    assert_eq!(
        (ms.is_ended(), ms.current_values().x),
        (s.is_ended(), s.current_values().x),
        "property: '1800ms 2x' and '1.8s 2x' are the same timeline; after 5.4 s (ended, x) differ"
    );
}
