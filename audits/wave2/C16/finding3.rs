//! animator!: an easing written after a keyframe ('50% { .. } Easing::InOutCirc', the form the
//! README's animator example uses) is silently accepted, but it neither becomes that keyframe's
//! easing (KeyframeBuilder::easing) nor is it rejected: it REPLACES the easing given at the head
//! of the timeline, which is dropped without a word. The segments before that keyframe are then
//! eased with a curve that the block only asked for from that keyframe onwards.

use mina::prelude::*;
use mina::EasingFunction;

#[derive(Clone, Debug, Default, Eq, PartialEq, State)]
enum St {
    #[default]
    A,
}

#[derive(Animate, Clone, Debug, Default, PartialEq)]
struct Style {
    x: f32,
}

fn sample(animator: &mut impl StateAnimator<State = St, Values = Style>) -> Vec<f32> {
    // 2 s timeline sampled every 0.25 s (all exact in f32).
    (0..8)
        .map(|_| {
            animator.advance(0.25);
            animator.current_values().x
        })
        .collect()
}

#[test]
fn easing_after_a_keyframe_must_not_replace_the_timeline_easing() {
    let mut from_macro = animator!(Style {
        St::A => 2s Easing::OutQuint
            from { x: 0.0 }
            50% { x: 50.0 } Easing::InOutCirc
            to { x: 100.0 }
    });

    // Builder reading: the timeline's easing is OutQuint; the keyframe at 50% switches to
    // InOutCirc "starting from the beginning of this keyframe" (KeyframeBuilder::easing).
    let mut from_builder = StateAnimatorBuilder::new()
        .on(
            St::A,
            Style::timeline()
                .duration_seconds(2.0)
                .default_easing(Easing::OutQuint)
                .keyframe(Style::keyframe(0.0).x(0.0))
                .keyframe(Style::keyframe(0.5).x(50.0).easing(Easing::InOutCirc))
                .keyframe(Style::keyframe(1.0).x(100.0)),
        )
        .build();

    // What the head of the block alone means, for the first half.
    let mut head_only = animator!(Style {
        St::A => 2s Easing::OutQuint
            from { x: 0.0 }
            50% { x: 50.0 }
            to { x: 100.0 }
    });

    let actual = sample(&mut from_macro);
    let expected = sample(&mut from_builder);
    let head = sample(&mut head_only);

    assert_eq!(
        &expected[..4],
        &head[..4],
        "sanity: up to the 50% keyframe the builder-made animator follows Easing::OutQuint"
    );
    assert_eq!(
        actual, expected,
        "property: the block gives the timeline Easing::OutQuint and switches to InOutCirc at the \
         50% keyframe, so x must approach 50 along OutQuint (28.9, 43.75, 49.2, 50) like the \
         builder-made animator; the library dropped Easing::OutQuint and eased the first half \
         with InOutCirc as well (x every 0.25 s: {actual:?})"
    );
}

#[test]
fn readme_shaped_block_keeps_its_first_easing_for_the_first_keyframes() {
    // The shape of the README's animator example: easing at the head, another one after a
    // keyframe in the middle, keyframes given in percent.
    let mut readme_shaped = animator!(Style {
        St::A => 2s Easing::OutQuint
            from { x: 0.0 }
            50% { x: 80.0 } Easing::InOutCirc
            75% { x: 90.0 }
            100% { x: 100.0 }
    });
    readme_shaped.advance(0.25); // a quarter of the way from 0% (x = 0) to the 50% keyframe (x = 80)
    let x = readme_shaped.current_values().x;
    let with_head_easing = 80.0 * Easing::OutQuint.calc(0.25);
    let with_trailing_easing = 80.0 * Easing::InOutCirc.calc(0.25);
    assert!(
        (x - with_head_easing).abs() < 0.01,
        "property: before the 50% keyframe the timeline is eased with the easing given at its \
         head (OutQuint: x = {with_head_easing} after 0.25 s); the library replaced it by the \
         easing written after the 50% keyframe (InOutCirc would give {with_trailing_easing}) and \
         produced x = {x}"
    );
}
