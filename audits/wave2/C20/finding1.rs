//! Property C20: valid configurations never turn finite inputs into NaN or infinity.
//!
//! `impl Lerp for f32` (and, through it, every integer type, `f64` and the glam vectors) computes
//! `self * (1.0 - x) + y1 * x`. As soon as the easing leaves [0, 1] - which the built-in `*Back`
//! easings do by design, and which the `EasingFunction` docs explicitly allow - each of the two
//! products can exceed the f32 range on its own although their sum (the interpolated value) is
//! comfortably inside it. The result is `inf`, or `NaN` when both products overflow with opposite
//! signs. The most striking case is a property that does not move at all: both keyframes hold the
//! same finite value, and the timeline still reports infinity in the middle of the segment.

use mina::prelude::*;
use mina::EasingFunction;

#[derive(Animate, Clone, Debug, Default, PartialEq)]
struct Style {
    x: f32,
}

const SAMPLES: u32 = 200;

fn sample_times() -> impl Iterator<Item = f32> {
    (0..=SAMPLES).map(|i| i as f32 / SAMPLES as f32)
}

/// Both keyframes hold f32::MAX, so the property is constant; the only thing that varies is the
/// built-in easing `OutBack`, which overshoots to about 1.1.
#[test]
fn constant_f32_max_with_builtin_out_back_stays_finite() {
    let timeline = Style::timeline()
        .duration_seconds(1.0)
        .default_easing(Easing::OutBack)
        .keyframe(Style::keyframe(0.0).x(f32::MAX))
        .keyframe(Style::keyframe(1.0).x(f32::MAX))
        .build();

    for time in sample_times() {
        let mut values = Style::default();
        timeline.update(&mut values, time);
        assert!(
            values.x.is_finite(),
            "property demands: finite keyframe values (f32::MAX at 0% and at 100%, built-in easing \
             OutBack, duration 1s) never evaluate to NaN or infinity; the library returned x = {} \
             at time {time}",
            values.x
        );
        assert!(
            (values.x / f32::MAX - 1.0).abs() < 1e-5,
            "a property whose keyframes are both f32::MAX must stay at f32::MAX; the library \
             returned x = {} at time {time}",
            values.x
        );
    }
}

/// The interpolated value is mathematically inside the f32 range at every instant: it moves from
/// 0.80 * MAX to 0.95 * MAX and overshoots (OutBack peaks at ~1.10) to at most ~0.965 * MAX.
#[test]
fn in_range_overshoot_with_builtin_out_back_stays_finite() {
    let from = 0.80 * f32::MAX;
    let to = 0.95 * f32::MAX;
    let timeline = Style::timeline()
        .duration_seconds(1.0)
        .default_easing(Easing::OutBack)
        .keyframe(Style::keyframe(0.0).x(from))
        .keyframe(Style::keyframe(1.0).x(to))
        .build();

    for time in sample_times() {
        let mut values = Style::default();
        timeline.update(&mut values, time);
        assert!(
            values.x.is_finite() && values.x <= 0.97 * f32::MAX,
            "property demands: interpolating 0.80*f32::MAX -> 0.95*f32::MAX with OutBack (peak \
             ~1.10, i.e. at most ~0.965*f32::MAX) stays finite; the library returned x = {} at \
             time {time}",
            values.x
        );
    }
}

/// Blending path: `start_with` replaces the 0% value with the current (extreme but finite) value.
/// InBack dips to about -0.1 at the beginning, so it is the *start* product that overflows here.
#[test]
fn start_with_f32_max_and_builtin_in_back_stays_finite() {
    let mut timeline = Style::timeline()
        .duration_seconds(1.0)
        .default_easing(Easing::InBack)
        .keyframe(Style::keyframe(0.0).x(0.0))
        .keyframe(Style::keyframe(1.0).x(f32::MAX))
        .build();
    timeline.start_with(&Style { x: f32::MAX });

    for time in sample_times() {
        let mut values = Style { x: f32::MAX };
        timeline.update(&mut values, time);
        assert!(
            values.x.is_finite(),
            "property demands: a timeline started with x = f32::MAX and ending at x = f32::MAX \
             (built-in easing InBack) stays finite (it does not move at all); the library \
             returned x = {} at time {time}",
            values.x
        );
    }
}

/// A custom easing that honours calc(0) = 0 and calc(1) = 1 and overshoots to ~2.5 in between
/// (`EasingFunction::calc` documents that the result "may be outside that range").
#[derive(Clone, Debug)]
struct Overshoot;

impl EasingFunction for Overshoot {
    fn calc(&self, x: f32) -> f32 {
        x + 8.0 * x * (1.0 - x)
    }
}

/// With a larger overshoot both products overflow, with opposite signs: inf - inf = NaN.
#[test]
fn constant_f32_max_with_custom_overshoot_is_not_nan() {
    let timeline = Style::timeline()
        .duration_seconds(1.0)
        .default_easing(Easing::Custom(Box::new(Overshoot)))
        .keyframe(Style::keyframe(0.0).x(f32::MAX))
        .keyframe(Style::keyframe(1.0).x(f32::MAX))
        .build();

    let evaluated: Vec<(f32, f32)> = sample_times()
        .map(|time| {
            let mut values = Style::default();
            timeline.update(&mut values, time);
            (time, values.x)
        })
        .collect();
    for (time, x) in &evaluated {
        assert!(
            !x.is_nan(),
            "property demands: a constant finite property (f32::MAX at 0% and 100%) eased by a \
             custom easing with calc(0)=0, calc(1)=1 never becomes NaN; the library returned \
             x = {x} at time {time}"
        );
    }
    for (time, x) in &evaluated {
        assert!(
            x.is_finite(),
            "property demands: a constant finite property (f32::MAX at 0% and 100%) eased by a \
             custom easing with calc(0)=0, calc(1)=1 never becomes infinite; the library \
             returned x = {x} at time {time}"
        );
    }
}
