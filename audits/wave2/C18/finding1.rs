//! C18 - Bevy Animator: the state is decided from a lossily converted position.
//!
//! `animate` converts `timeline_position` with `Duration::as_secs_f32()`, which rounds three times
//! and can return the f32 just BELOW the position. A position that has reached the delay / the
//! total duration is then compared as if it had not, and because the conversion of an unchanged
//! position never changes, the animator stays in the wrong state for as long as the frames are
//! zero-length (e.g. `Time` paused) and announces nothing.

use bevy::ecs::event::ManualEventReader;
use bevy::prelude::*;
use bevy::utils::Instant;
use bevy_mina::prelude::*;
use mina::prelude::*;
use std::time::Duration;

#[derive(Animate, Clone, Component, Debug, Default, PartialEq)]
struct Foo {
    x: f32,
}

struct Sim {
    app: App,
    last: Instant,
    reader: ManualEventReader<AnimationStateChanged>,
}

impl Sim {
    fn new() -> Self {
        let mut app = App::new();
        app.insert_resource(Time::default());
        app.add_plugins(AnimationPlugin::<Foo>::new());
        let start = Instant::now();
        app.world.resource_mut::<Time>().update_with_instant(start);
        Sim {
            app,
            last: start,
            reader: ManualEventReader::default(),
        }
    }

    /// Advances the clock by `delta`, runs one frame and returns the states announced in it.
    fn frame(&mut self, delta: Duration) -> Vec<AnimationState> {
        self.last += delta;
        let now = self.last;
        self.app.world.resource_mut::<Time>().update_with_instant(now);
        self.app.update();
        let events = self.app.world.resource::<Events<AnimationStateChanged>>();
        self.reader.iter(events).map(|e| e.state).collect()
    }

    fn state(&self, e: Entity) -> AnimationState {
        self.app.world.get::<Animator<Foo>>(e).unwrap().state()
    }

    fn position(&self, e: Entity) -> Duration {
        self.app.world.get::<Animator<Foo>>(e).unwrap().timeline_position
    }
}

fn timeline(duration: f32, delay: f32) -> impl Timeline<Target = Foo> + Clone + Send + Sync + 'static {
    Foo::timeline()
        .duration_seconds(duration)
        .delay_seconds(delay)
        .keyframe(Foo::keyframe(0.0).x(0.0))
        .keyframe(Foo::keyframe(1.0).x(10.0))
        .build()
}

/// One frame exactly as long as the whole animation, then the clock stands still (zero-length
/// frames, as with `Time::pause`). The position has reached the total, so the first frame after
/// that has to be `Ended`, with exactly one `Ended` event.
#[test]
fn a_position_that_reached_the_total_must_end_the_animation() {
    // Ordinary durations; about one f32 in three hundred between 0.01 and 10 behaves like this.
    for duration in [1.66f32, 1.692, 1.785, 1.91, 0.19931105] {
        let mut sim = Sim::new();
        let tl = timeline(duration, 0.0);
        let total = tl.duration();
        let e = sim.app.world.spawn((Foo::default(), Animator::<Foo>::with_timeline(tl))).id();

        let mut announced = sim.frame(Duration::ZERO);
        assert_eq!(sim.state(e), AnimationState::Playing);

        // Smallest whole number of nanoseconds that is not less than the total.
        let whole = Duration::from_nanos((total as f64 * 1e9).ceil() as u64);
        announced.extend(sim.frame(whole));
        let position = sim.position(e);
        assert_eq!(position, whole, "time is conserved");
        assert!(
            position.as_secs_f64() >= total as f64,
            "test premise: the position {position:?} has reached the total {total}"
        );

        // Zero-length frames: the property allows one frame of lag, not more.
        for n in 1..=3 {
            announced.extend(sim.frame(Duration::ZERO));
            assert_eq!(
                sim.state(e),
                AnimationState::Ended,
                "duration {duration}: the position {position:?} reached the total duration {total} s, so \
                 the animator must be Ended no later than one frame after that; {n} frame(s) later \
                 the library still reports {:?} (Duration::as_secs_f32 gave {} < {total})",
                sim.state(e),
                position.as_secs_f32(),
            );
        }
        let ended = announced.iter().filter(|s| **s == AnimationState::Ended).count();
        assert_eq!(
            ended, 1,
            "duration {duration}: exactly one Ended event per run is demanded; announced {announced:?}"
        );
    }
}

/// Same conversion, other comparison: the animator must be Waiting only while the position is
/// before the delay.
#[test]
fn a_position_that_reached_the_delay_must_not_be_waiting() {
    for delay in [1.66f32, 1.692, 1.785, 1.91] {
        let mut sim = Sim::new();
        let tl = timeline(1.0, delay);
        let e = sim.app.world.spawn((Foo::default(), Animator::<Foo>::with_timeline(tl))).id();

        let mut announced = sim.frame(Duration::ZERO);
        assert_eq!(sim.state(e), AnimationState::Waiting);

        let wait = Duration::from_nanos((delay as f64 * 1e9).ceil() as u64);
        announced.extend(sim.frame(wait));
        let position = sim.position(e);
        assert!(position.as_secs_f64() >= delay as f64, "test premise");

        for n in 1..=3 {
            announced.extend(sim.frame(Duration::ZERO));
            assert_eq!(
                sim.state(e),
                AnimationState::Playing,
                "delay {delay}: the animator may be Waiting only while the position is before the \
                 delay; the position is {position:?} >= {delay} s, and {n} frame(s) later the \
                 library still reports {:?}, announced so far {announced:?}",
                sim.state(e),
            );
        }
        assert!(
            announced.contains(&AnimationState::Playing),
            "delay {delay}: the change to Playing has to be announced; announced {announced:?}"
        );
    }
}
