//! C18 - Bevy Animator: an animator whose entity does not have the target component (yet) runs
//! through its whole timeline anyway, announces `Ended`, and stops. When the target component is
//! added afterwards (by another system's commands, a scene, an asset callback ...) the animator
//! keeps reporting `Ended` although the target never received the final values - or any values.

use bevy::ecs::event::ManualEventReader;
use bevy::prelude::*;
use bevy::utils::Instant;
use bevy_mina::prelude::*;
use mina::prelude::*;
use std::time::Duration;

#[derive(Animate, Clone, Component, Debug, Default, PartialEq)]
struct Foo {
    x: f32,
}

/// Marks entities that are waiting for their `Foo`.
#[derive(Component)]
struct NeedsFoo;

/// Set by the test when "the asset has loaded".
#[derive(Resource, Default)]
struct Loaded(bool);

/// Another system of the app: attaches the animated component once its data is available.
fn attach_foo(mut commands: Commands, loaded: Res<Loaded>, waiting: Query<Entity, With<NeedsFoo>>) {
    if !loaded.0 {
        return;
    }
    for entity in waiting.iter() {
        commands.entity(entity).insert(Foo { x: 0.0 }).remove::<NeedsFoo>();
    }
}

struct Sim {
    app: App,
    last: Instant,
    reader: ManualEventReader<AnimationStateChanged>,
}

impl Sim {
    fn new() -> Self {
        let mut app = App::new();
        app.insert_resource(Time::default());
        app.init_resource::<Loaded>();
        app.add_plugins(AnimationPlugin::<Foo>::new());
        // Commands are applied at the end of `Update`, whichever way Bevy orders this system
        // against the animation system, so the outcome does not depend on that order.
        app.add_systems(Update, attach_foo);
        let start = Instant::now();
        app.world.resource_mut::<Time>().update_with_instant(start);
        Sim {
            app,
            last: start,
            reader: ManualEventReader::default(),
        }
    }

    fn frame(&mut self, delta: Duration) -> Vec<AnimationState> {
        self.last += delta;
        let now = self.last;
        self.app.world.resource_mut::<Time>().update_with_instant(now);
        self.app.update();
        let events = self.app.world.resource::<Events<AnimationStateChanged>>();
        self.reader.iter(events).map(|e| e.state).collect()
    }

    fn state(&self, e: Entity) -> AnimationState {
        self.app.world.get::<Animator<Foo>>(e).unwrap().state()
    }
}

#[test]
fn ended_must_mean_that_the_target_holds_the_final_values() {
    let mut sim = Sim::new();
    // A half-second fade-in from 0 to 1, spawned before its target component exists.
    let e = sim
        .app
        .world
        .spawn((
            NeedsFoo,
            Animator::<Foo>::with_timeline(timeline!(Foo 0.5s from { x: 0.0 } to { x: 1.0 })),
        ))
        .id();

    let mut announced = Vec::new();
    // A zero-length first frame, a hitch longer than the whole animation (loading), a tiny frame.
    for delta in [Duration::ZERO, Duration::from_secs(2), Duration::from_millis(16)] {
        announced.extend(sim.frame(delta));
    }
    // The data arrives; `attach_foo` inserts the component during the next frame.
    sim.app.world.resource_mut::<Loaded>().0 = true;
    for n in 0..6 {
        announced.extend(sim.frame(Duration::from_millis(200)));
        let Some(foo) = sim.app.world.get::<Foo>(e) else {
            continue;
        };
        if sim.state(e) == AnimationState::Ended {
            assert!(
                (foo.x - 1.0).abs() < 1e-3,
                "whenever the animator reports Ended the target component has to hold the \
                 timeline's terminal value x = 1; {} frame(s) after the target was attached the \
                 animator reports Ended and x = {} (the timeline was never applied to it); \
                 announced so far: {announced:?}",
                n,
                foo.x,
            );
        }
    }
    assert_eq!(
        sim.state(e),
        AnimationState::Ended,
        "test premise: 1.2 s after the target arrived a 0.5 s animation is over; announced {announced:?}"
    );
    let ended = announced.iter().filter(|s| **s == AnimationState::Ended).count();
    assert_eq!(ended, 1, "exactly one Ended event per run; announced {announced:?}");
}
