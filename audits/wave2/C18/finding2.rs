//! C18 - Bevy Animator: `Ended` is decided with `Timeline::duration()`, the final values with
//! the timeline's own idea of its end, and the two disagree when the delay (or the number of
//! cycles played) is large compared with the cycle: the animator reports `Ended`, announces it,
//! stops - and leaves the target part-way through the animation for good.

use bevy::ecs::event::ManualEventReader;
use bevy::prelude::*;
use bevy::utils::Instant;
use bevy_mina::prelude::*;
use mina::prelude::*;
use std::time::Duration;

#[derive(Animate, Clone, Component, Debug, Default, PartialEq)]
struct Foo {
    x: f32,
}

struct Sim {
    app: App,
    last: Instant,
    reader: ManualEventReader<AnimationStateChanged>,
}

impl Sim {
    fn new() -> Self {
        let mut app = App::new();
        app.insert_resource(Time::default());
        app.add_plugins(AnimationPlugin::<Foo>::new());
        let start = Instant::now();
        app.world.resource_mut::<Time>().update_with_instant(start);
        Sim {
            app,
            last: start,
            reader: ManualEventReader::default(),
        }
    }

    fn frame(&mut self, delta: Duration) -> Vec<AnimationState> {
        self.last += delta;
        let now = self.last;
        self.app.world.resource_mut::<Time>().update_with_instant(now);
        self.app.update();
        let events = self.app.world.resource::<Events<AnimationStateChanged>>();
        self.reader.iter(events).map(|e| e.state).collect()
    }

    fn state(&self, e: Entity) -> AnimationState {
        self.app.world.get::<Animator<Foo>>(e).unwrap().state()
    }

    fn position(&self, e: Entity) -> Duration {
        self.app.world.get::<Animator<Foo>>(e).unwrap().timeline_position
    }

    fn x(&self, e: Entity) -> f32 {
        self.app.world.get::<Foo>(e).unwrap().x
    }
}

/// Runs `schedule` and checks on every frame: Ended implies the terminal value.
fn run(
    label: &str,
    duration: f32,
    delay: f32,
    reverse: bool,
    schedule: &[Duration],
) {
    let tl = Foo::timeline()
        .duration_seconds(duration)
        .delay_seconds(delay)
        .reverse(reverse)
        .keyframe(Foo::keyframe(0.0).x(0.0))
        .keyframe(Foo::keyframe(1.0).x(10.0))
        .build();
    let total = tl.duration();
    // A reversing timeline ends where it began.
    let terminal = if reverse { 0.0 } else { 10.0 };

    let mut sim = Sim::new();
    // The target starts away from both ends so that "never written" is visible too.
    let e = sim.app.world.spawn((Foo { x: 5.0 }, Animator::<Foo>::with_timeline(tl))).id();
    let mut announced = Vec::new();
    for (n, delta) in schedule.iter().enumerate() {
        announced.extend(sim.frame(*delta));
        if sim.state(e) == AnimationState::Ended {
            let x = sim.x(e);
            assert!(
                (x - terminal).abs() < 0.01,
                "{label}: whenever the animator reports Ended the target has to hold the \
                 timeline's terminal value x = {terminal}; on frame {n} the animator is Ended at \
                 position {:?} (Timeline::duration() = {total} s, delay {delay} s, cycle \
                 {duration} s) and x = {x}",
                sim.position(e),
            );
        }
    }
    assert_eq!(
        sim.state(e),
        AnimationState::Ended,
        "{label}: test premise - the schedule runs past the end; announced {announced:?}"
    );
}

/// A delay far larger than the cycle: 0.09 s of animation after 1 000 000 s.
/// Two medium frames bring the position to 1 000 000.05 s, then the frames are tiny.
#[test]
fn ended_after_a_long_delay_must_hold_the_final_value() {
    let half = Duration::from_secs_f64(500_000.025);
    let tiny = Duration::from_millis(10);
    run(
        "0.09 s after 1e6 s",
        0.09,
        1_000_000.0,
        false,
        &[Duration::ZERO, half, half, tiny, Duration::ZERO, tiny, tiny],
    );
}

/// A less extreme one: a 10.7 ms reversing blink after a delay of 4 h 40 min. One medium frame
/// ends exactly on `Timeline::duration()`, then the frames are tiny.
#[test]
fn ended_reversing_blink_must_be_back_at_the_start_value() {
    let duration = 0.010733087f32;
    let delay = 16790.037f32;
    let total = delay + duration; // what Timeline::duration() returns for Repeat::None
    let tiny = Duration::from_millis(1);
    run(
        "10.7 ms reversing blink after 16790 s",
        duration,
        delay,
        true,
        &[Duration::ZERO, Duration::from_secs_f64(total as f64), tiny, Duration::ZERO, tiny, tiny, tiny, tiny],
    );
}
