// C20 - Valid configurations never panic or produce non-finite values.
//
// NOTE: this demonstration targets the Bevy plugin (`bevy_mina::Animator`), so it has to be placed
// at bevy/tests/demo.rs of the `bevy_mina` crate (it does not compile inside the root `mina`
// crate, which has no Bevy dependency).
//
// `Animator::timeline_position` is a public, documented-as-settable `Duration`. The animation
// system advances it with `timeline_position += time.delta()`, and `Duration`'s `+=` panics on
// overflow. With a position at (or within one frame of) the largest representable time and a
// timeline that has not ended there (repeats forever, or is still waiting for a very long but
// finite delay), the next `App::update` panics with "overflow when adding durations".
// The core `StateAnimator::advance` already saturates in the very same situation.

use bevy::prelude::*;
use bevy::utils::{Duration, Instant};
use bevy_mina::prelude::*;
use mina::prelude::*;
use std::panic::{catch_unwind, AssertUnwindSafe};

#[derive(Animate, Clone, Component, Debug, Default, PartialEq)]
struct Style {
    x: f32,
}

fn make_app() -> (App, Instant) {
    let mut app = App::new();
    let start = Instant::now();
    app.insert_resource(Time::new(start));
    app.add_plugins(AnimationPlugin::<Style>::new());
    (app, start)
}

fn step(app: &mut App, at: Instant) -> bool {
    app.world.resource_mut::<Time>().update_with_instant(at);
    catch_unwind(AssertUnwindSafe(|| app.update())).is_ok()
}

/// Runs three ordinary 100 ms frames, moves the animator to `position`, and runs one more frame.
/// Returns whether that last frame completed without panicking, plus the app for inspection.
fn run_to_position(
    timeline: impl SafeTimeline<Target = Style>,
    position: Duration,
) -> (bool, App, Entity) {
    let (mut app, start) = make_app();
    let entity = app
        .world
        .spawn((Style::default(), Animator::<Style>::with_timeline(timeline)))
        .id();
    for frame in 0..3 {
        assert!(
            step(&mut app, start + Duration::from_millis(100 * frame)),
            "ordinary frames must not panic"
        );
    }
    app.world
        .get_mut::<Animator<Style>>(entity)
        .unwrap()
        .timeline_position = position;
    let survived = step(&mut app, start + Duration::from_millis(300));
    (survived, app, entity)
}

#[test]
fn infinitely_repeating_timeline_at_the_largest_time_does_not_panic() {
    let timeline = Style::timeline()
        .duration_seconds(1.0)
        .repeat(Repeat::Infinite)
        .keyframe(Style::keyframe(0.0).x(0.0))
        .keyframe(Style::keyframe(1.0).x(10.0))
        .build();

    let (survived, app, entity) = run_to_position(timeline, Duration::MAX);

    assert!(
        survived,
        "property: evaluating an animator at any finite time >= 0, including astronomically large \
         times, never panics; library: with timeline_position = Duration::MAX on an infinitely \
         repeating timeline, the next update panicked ('overflow when adding durations' in \
         bevy/src/animator.rs: `animator.timeline_position += time.delta()`)"
    );
    let x = app.world.get::<Style>(entity).unwrap().x;
    assert!(
        x.is_finite() && (0.0..=10.0).contains(&x),
        "property: the animated value stays finite and inside the keyframe range; library: x = {x}"
    );
}

#[test]
fn one_frame_before_the_largest_time_does_not_panic_either() {
    let timeline = Style::timeline()
        .duration_seconds(0.7)
        .repeat(Repeat::Infinite)
        .reverse(true)
        .keyframe(Style::keyframe(0.0).x(0.0))
        .keyframe(Style::keyframe(1.0).x(10.0))
        .build();

    // 50 ms short of the maximum; the next frame is 100 ms long.
    let position = Duration::MAX - Duration::from_millis(50);
    let (survived, _, _) = run_to_position(timeline, position);

    assert!(
        survived,
        "property: a frame that carries the accumulated time past the largest representable time \
         never panics (the core StateAnimator saturates); library: the update panicked with \
         'overflow when adding durations'"
    );
}

#[test]
fn timeline_still_waiting_for_a_long_finite_delay_does_not_panic() {
    // Delay and total duration are finite and representable in f32 (1e20 s), but longer than the
    // largest Duration (about 1.8e19 s), so the animator is still Waiting at Duration::MAX.
    let timeline = Style::timeline()
        .duration_seconds(1.0)
        .delay_seconds(1e20)
        .keyframe(Style::keyframe(0.0).x(0.0))
        .keyframe(Style::keyframe(1.0).x(10.0))
        .build();

    let (survived, app, entity) = run_to_position(timeline, Duration::MAX);

    assert!(
        survived,
        "property: extreme but finite delays and astronomically large times never panic; library: \
         with delay 1e20 s and timeline_position = Duration::MAX the update panicked with \
         'overflow when adding durations'"
    );
    assert_eq!(
        app.world.get::<Animator<Style>>(entity).unwrap().state(),
        AnimationState::Waiting,
        "property: before the delay has elapsed the animator is still waiting"
    );
}
