// C20 - Valid configurations never panic or produce non-finite values.
//
// An `f64` property whose (finite) keyframe value lies beyond the f32 range is turned into
// infinity for the whole duration of the animation and into NaN at the first instant, because
// `Lerp for f64` narrows both endpoints to f32 before interpolating (core/src/interpolation.rs).
// The terminal value (copied, not interpolated) is correct again, so the value jumps
// NaN -> inf -> 1e39.

use mina::prelude::*;

#[derive(Animate, Clone, Debug, Default, PartialEq)]
struct Big {
    v: f64,
}

#[derive(Clone, Debug, Default, Eq, PartialEq, State)]
enum Phase {
    #[default]
    Grow,
}

fn grow_timeline() -> BigTimeline {
    Big::timeline()
        .duration_seconds(1.0)
        .keyframe(Big::keyframe(0.0).v(0.0))
        .keyframe(Big::keyframe(1.0).v(1e39)) // finite f64, about 3x f32::MAX
        .build()
}

#[test]
fn finite_f64_keyframes_stay_finite_on_a_timeline() {
    let timeline = grow_timeline();
    for (time, expected) in [(0.0f32, 0.0f64), (0.25, 0.25e39), (0.5, 0.5e39), (0.75, 0.75e39), (1.0, 1e39)] {
        let mut values = Big { v: 7.0 };
        timeline.update(&mut values, time);
        assert!(
            values.v.is_finite(),
            "property: finite keyframe values (0.0 and 1e39, both finite f64) never turn into NaN or \
             infinity; library: at t = {time} s the value is {}",
            values.v
        );
        assert!(
            (values.v - expected).abs() <= 1e-5 * 1e39,
            "property: the value at t = {time} s is the linear interpolation {expected:e}; \
             library: {:e}",
            values.v
        );
    }
}

#[test]
fn finite_f64_keyframes_stay_finite_in_a_state_animator() {
    let mut animator = StateAnimatorBuilder::new()
        .from_state(Phase::Grow)
        .on(Phase::Grow, grow_timeline())
        .build();
    for frame in 0..8 {
        animator.advance(0.125);
        let v = animator.current_values().v;
        assert!(
            v.is_finite(),
            "property: the animator never produces NaN or infinity from finite inputs; library: \
             after frame {frame} (t = {} s) the value is {v}",
            0.125 * (frame + 1) as f32
        );
    }
    assert!(animator.is_ended());
    assert_eq!(animator.current_values().v, 1e39);
}

#[test]
fn constant_large_f64_value_is_held() {
    // The property is not even animated: both keyframes carry the same finite value.
    let timeline = Big::timeline()
        .duration_seconds(2.0)
        .repeat(Repeat::Times(3))
        .reverse(true)
        .keyframe(Big::keyframe(0.0).v(-2.5e300))
        .keyframe(Big::keyframe(1.0).v(-2.5e300))
        .build();
    for time in [0.0f32, 0.1, 0.5, 1.0, 1.5, 2.0, 3.3, 7.9, 8.0, 100.0] {
        let mut values = Big::default();
        timeline.update(&mut values, time);
        assert!(
            (values.v - -2.5e300).abs() <= 1e-9 * 2.5e300,
            "property: a property held at the finite value -2.5e300 by both keyframes keeps that \
             value at every time; library: at t = {time} s it is {}",
            values.v
        );
    }
}
