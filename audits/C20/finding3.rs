// C20 - Valid configurations never panic or produce non-finite values.
//
// Integer properties whose keyframe value is at (or within half an f32 ulp of) the top of a 32/64
// bit type panic as soon as that keyframe takes part in an interpolation - even with x = 0 / x = 1
// or with both endpoints equal, i.e. without any overshoot: `Lerp` converts the endpoints to f32
// (u32::MAX -> 4294967296.0, i32::MAX -> 2147483648.0, u64::MAX -> 2^64), and the checked
// conversion back fails (core/src/interpolation.rs:57-61). Linear easing only; no Back easing.

use mina::prelude::*;
use std::panic::{catch_unwind, AssertUnwindSafe};

#[derive(Animate, Clone, Debug, Default, PartialEq)]
struct Counters {
    n: u32,
    m: i32,
    q: u64,
}

#[derive(Clone, Debug, Default, Eq, PartialEq, State)]
enum Phase {
    #[default]
    Fill,
    Drain,
}

#[test]
fn state_change_after_reaching_u32_max_does_not_panic() {
    let mut animator = StateAnimatorBuilder::new()
        .from_state(Phase::Fill)
        .on(
            Phase::Fill,
            Counters::timeline()
                .duration_seconds(1.0)
                .keyframe(Counters::keyframe(0.0).n(0))
                .keyframe(Counters::keyframe(1.0).n(u32::MAX)),
        )
        .on(
            Phase::Drain,
            Counters::timeline()
                .duration_seconds(1.0)
                .keyframe(Counters::keyframe(0.0).n(5))
                .keyframe(Counters::keyframe(1.0).n(10)),
        )
        .build();
    // The first animation runs to completion without any problem and ends on u32::MAX...
    for _ in 0..5 {
        animator.advance(0.25);
    }
    assert!(animator.is_ended());
    assert_eq!(animator.current_values().n, u32::MAX);

    // ...and the state change that blends from there panics.
    let result = catch_unwind(AssertUnwindSafe(|| {
        animator.set_state(&Phase::Drain);
        animator.advance(0.5);
        animator.current_values().n
    }));
    assert!(
        result.is_ok(),
        "property: set_state/advance on a valid animator never panics; library: blending from the \
         current value u32::MAX panicked in Lerp ('Converted value was outside the valid range \
         for this type')"
    );
    let n = result.unwrap();
    assert!(
        (2_147_000_000..=2_148_000_000).contains(&n),
        "property: half way from u32::MAX to 10 the value is about 2^31; library: {n}"
    );
}

#[test]
fn timeline_through_u32_max_evaluates_at_the_keyframe_instant() {
    let timeline = Counters::timeline()
        .duration_seconds(1.0)
        .keyframe(Counters::keyframe(0.0).n(0))
        .keyframe(Counters::keyframe(0.5).n(u32::MAX))
        .keyframe(Counters::keyframe(1.0).n(0))
        .build();
    // One ulp before and after the middle keyframe are fine; the instant itself panics.
    for time in [0.0f32, 0.25, 0.49999997, 0.5, 0.50000006, 0.75, 1.0] {
        let mut values = Counters::default();
        let result = catch_unwind(AssertUnwindSafe(|| timeline.update(&mut values, time)));
        assert!(
            result.is_ok(),
            "property: evaluating a valid timeline (u32 keyframes 0, u32::MAX, 0; linear easing) \
             never panics at any time; library: update panicked at t = {time} s"
        );
    }
    let mut values = Counters::default();
    timeline.update(&mut values, 0.5);
    assert_eq!(values.n, u32::MAX, "property: at the keyframe instant the value is the keyframe value");
}

#[test]
fn properties_held_at_the_type_maximum_do_not_panic() {
    let timeline = Counters::timeline()
        .duration_seconds(1.0)
        .keyframe(Counters::keyframe(0.0).n(u32::MAX).m(i32::MAX).q(u64::MAX))
        .keyframe(Counters::keyframe(1.0).n(u32::MAX).m(i32::MAX).q(u64::MAX))
        .build();
    for time in [0.0f32, 0.3, 0.5, 0.9, 1.0, 5.0] {
        let mut values = Counters::default();
        let result = catch_unwind(AssertUnwindSafe(|| timeline.update(&mut values, time)));
        assert!(
            result.is_ok(),
            "property: holding n = u32::MAX, m = i32::MAX, q = u64::MAX (same value in both \
             keyframes) never panics; library: update panicked at t = {time} s"
        );
        assert_eq!(
            values,
            Counters { n: u32::MAX, m: i32::MAX, q: u64::MAX },
            "property: constant properties keep their value at t = {time} s"
        );
    }
}
