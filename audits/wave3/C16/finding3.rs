//! C16 - with a `remote` proxy type, animator! takes the omitted / inline default values from the
//! *proxy* instead of from the type being animated.
//!
//! `#[animate(remote = "Widget")] struct WidgetProxy` makes `WidgetProxy` the type to name "as the
//! timeline target in macro usage (or when calling builder methods manually)" (rustdoc of
//! `Animate`), while the timelines - and therefore the animator - operate on `Widget`.
//! The builder takes `Widget::default()` when `from_values` is not called. The macro expands
//! "omitted means Default" and "fields not listed keep the type's Default" to
//! `WidgetProxy::default()`, which is the wrong type: on the unchanged checkout this file does not
//! compile -
//!
//!     error[E0599]: no function or associated item named `default` found for struct `WidgetProxy`
//!
//! and when the proxy does implement `Default` (second half of the file: `PanelProxy`), the
//! expansion fails with `E0271: type mismatch resolving <PanelTimeline as Timeline>::Target ==
//! PanelProxy` instead.
//! Only the `default(state, <expression>)` form can be used with a proxy. With the fix, all tests
//! pass.

use mina::prelude::*;

// In real-world usage, these would be in another crate (e.g. a GUI library's style types).
mod external {
    #[derive(Clone, Debug, PartialEq)]
    pub struct Widget {
        pub alpha: f32,
        pub size: u16,
    }

    impl Default for Widget {
        fn default() -> Self {
            Self { alpha: 1.0, size: 10 }
        }
    }

    #[derive(Clone, Debug, Default, PartialEq)]
    pub struct Panel {
        pub width: f32,
    }
}

use external::{Panel, Widget};

#[derive(Animate)]
#[animate(remote = "Widget")]
struct WidgetProxy {
    alpha: f32,
    size: u16,
}

#[derive(Animate, Clone, Default)]
#[animate(remote = "Panel")]
struct PanelProxy {
    width: f32,
}

#[derive(Clone, Debug, Default, PartialEq, State)]
enum State {
    #[default]
    Idle,
    Active,
}

fn run<V: Clone>(
    animator: &mut impl StateAnimator<State = State, Values = V>,
) -> Vec<(State, V, bool)> {
    let mut history = Vec::new();
    let mut snapshot = |a: &dyn StateAnimator<State = State, Values = V>| {
        history.push((a.current_state().clone(), a.current_values().clone(), a.is_ended()));
    };
    snapshot(animator);
    for state in [State::Active, State::Idle, State::Active] {
        animator.set_state(&state);
        snapshot(animator);
        for _ in 0..5 {
            animator.advance(0.25);
            snapshot(animator);
        }
    }
    history
}

#[test]
fn omitted_defaults_are_the_defaults_of_the_animated_type() {
    let mut from_macro = animator!(WidgetProxy {
        State::Idle => 1s to default,
        State::Active => 1s to { alpha: 0.5, size: 30 }
    });
    let mut from_builder = StateAnimatorBuilder::new()
        .on(
            State::Idle,
            WidgetProxy::timeline()
                .duration_seconds(1.0)
                .keyframe(WidgetProxy::keyframe_from(&Widget::default(), 1.0)),
        )
        .on(
            State::Active,
            WidgetProxy::timeline()
                .duration_seconds(1.0)
                .keyframe(WidgetProxy::keyframe(1.0).alpha(0.5).size(30)),
        )
        .build();
    assert_eq!(
        from_macro.current_values(),
        &Widget { alpha: 1.0, size: 10 },
        "without a default clause the initial values are the Default of the animated type"
    );
    assert_eq!(
        run(&mut from_macro),
        run(&mut from_builder),
        "the animator! block must behave like its builder equivalent (left: macro, right: builder)"
    );
}

#[test]
fn inline_defaults_keep_the_default_of_the_animated_type_for_fields_not_listed() {
    let mut from_macro = animator!(WidgetProxy {
        default(State::Active, { size: 20 }),
        State::Idle => 1s to default,
        State::Active => 1s to { alpha: 0.5, size: 30 }
    });
    let defaults = Widget { size: 20, ..Default::default() };
    let mut from_builder = StateAnimatorBuilder::new()
        .from_state(State::Active)
        .from_values(defaults.clone())
        .on(
            State::Idle,
            WidgetProxy::timeline()
                .duration_seconds(1.0)
                .keyframe(WidgetProxy::keyframe_from(&defaults, 1.0)),
        )
        .on(
            State::Active,
            WidgetProxy::timeline()
                .duration_seconds(1.0)
                .keyframe(WidgetProxy::keyframe(1.0).alpha(0.5).size(30)),
        )
        .build();
    assert_eq!(
        from_macro.current_values(),
        &Widget { alpha: 1.0, size: 20 },
        "'default(state, {{ size: 20 }})': size is 20, alpha keeps Widget's Default (1.0)"
    );
    assert_eq!(
        run(&mut from_macro),
        run(&mut from_builder),
        "the animator! block must behave like its builder equivalent (left: macro, right: builder)"
    );
}

#[test]
fn proxy_that_implements_default_itself() {
    let mut from_macro = animator!(PanelProxy {
        default(State::Idle, { width: 4.0 }),
        State::Active => 1s to { width: 8.0 }
    });
    let mut from_builder = StateAnimatorBuilder::new()
        .from_state(State::Idle)
        .from_values(Panel { width: 4.0 })
        .on(
            State::Active,
            PanelProxy::timeline()
                .duration_seconds(1.0)
                .keyframe(PanelProxy::keyframe(1.0).width(8.0)),
        )
        .build();
    assert_eq!(
        run(&mut from_macro),
        run(&mut from_builder),
        "the animator! block must behave like its builder equivalent (left: macro, right: builder)"
    );
}
