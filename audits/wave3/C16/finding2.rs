//! C16 - attributes on the fields of a keyframe body or of the inline defaults are accepted and
//! silently thrown away, so a field that is configured out with `#[cfg(...)]` is set all the same.
//!
//! The bodies `{ field: value, ... }` are parsed as `syn::FieldValue`s - the fields of a struct
//! literal, which may carry outer attributes, `#[cfg]` being the one Rust gives a meaning there:
//! `Style { x: 1.0, #[cfg(feature = "glow")] glow: 7.0, ..Default::default() }` leaves `glow` at
//! its Default when the feature is off. The macro reads `member` and `expr` of each field and never
//! looks at `attrs`, so the animator gets the value whatever the predicate says; the builder code
//! one writes for the same block (`#[cfg(...)] let keyframe = keyframe.glow(7.0);`) does not.

use mina::prelude::*;

#[derive(Animate, Clone, Debug, Default, PartialEq)]
struct Style {
    x: f32,
    glow: f32,
}

#[derive(Clone, Debug, Default, PartialEq, State)]
enum State {
    #[default]
    Idle,
    Active,
}

type History = Vec<(State, Style, bool)>;

fn run(animator: &mut impl StateAnimator<State = State, Values = Style>) -> History {
    let mut history = Vec::new();
    let mut snapshot = |a: &dyn StateAnimator<State = State, Values = Style>| {
        history.push((a.current_state().clone(), a.current_values().clone(), a.is_ended()));
    };
    snapshot(animator);
    for state in [State::Active, State::Idle, State::Active] {
        animator.set_state(&state);
        snapshot(animator);
        for _ in 0..5 {
            animator.advance(0.25);
            snapshot(animator);
        }
    }
    history
}

// `any()` is the predicate that is never true, `all()` the one that always is; they stand in for
// `feature = "..."`, `target_os = "..."`, `debug_assertions` and the like.

fn builder_equivalent() -> impl StateAnimator<State = State, Values = Style> {
    let defaults = Style {
        x: 1.0,
        #[cfg(any())]
        glow: 7.0,
        ..Default::default()
    };
    let to = Style::keyframe(1.0).x(5.0);
    #[cfg(any())]
    let to = to.glow(9.0);
    StateAnimatorBuilder::new()
        .from_state(State::Idle)
        .from_values(defaults.clone())
        .on(State::Idle, Style::timeline().keyframe(Style::keyframe_from(&defaults, 1.0)))
        .on(State::Active, Style::timeline().keyframe(to))
        .build()
}

#[test]
fn field_configured_out_of_the_inline_defaults() {
    let animator = animator!(Style {
        default(State::Idle, { x: 1.0, #[cfg(any())] glow: 7.0 }),
        State::Active => 1s to { x: 5.0 }
    });
    assert_eq!(
        animator.current_values(),
        &Style { x: 1.0, glow: 0.0 },
        "'glow' is configured out of default(state, values), so it keeps the type's Default (0.0)"
    );
}

#[test]
fn field_configured_out_of_a_keyframe() {
    let mut animator = animator!(Style {
        State::Active => 1s to { x: 5.0, #[cfg(any())] glow: 9.0 }
    });
    animator.set_state(&State::Active);
    animator.advance(1.0);
    assert_eq!(
        animator.current_values(),
        &Style { x: 5.0, glow: 0.0 },
        "'glow' is configured out of the keyframe, so the timeline must not animate it"
    );
}

#[test]
fn same_history_as_the_builder() {
    let mut from_macro = animator!(Style {
        default(State::Idle, { x: 1.0, #[cfg(any())] glow: 7.0 }),
        State::Idle => 1s to default,
        State::Active => 1s to { x: 5.0, #[cfg(any())] glow: 9.0 }
    });
    let mut from_builder = builder_equivalent();
    assert_eq!(
        run(&mut from_macro),
        run(&mut from_builder),
        "the animator! block must behave like its builder equivalent (left: macro, right: builder)"
    );
}

#[test]
fn field_that_is_configured_in_is_still_set() {
    let mut animator = animator!(Style {
        default(State::Idle, { #[cfg(all())] glow: 7.0 }),
        State::Active => 1s to { #[cfg(all())] glow: 9.0, x: 5.0 }
    });
    assert_eq!(animator.current_values(), &Style { x: 0.0, glow: 7.0 });
    animator.set_state(&State::Active);
    animator.advance(1.0);
    assert_eq!(animator.current_values(), &Style { x: 5.0, glow: 9.0 });
}
