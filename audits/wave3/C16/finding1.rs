//! C16 - a `default` keyframe body only compiles when `animator!` is invoked in (or below) the module
//! that derives `Animate` for the values type.
//!
//! The animator below is the one from the crate documentation (`State::Idle => 0.25s to default`);
//! the only difference is that the animated struct lives in a module of its own, as it does in any
//! application that keeps its styles apart from its widgets. The builder equivalent of the
//! `default` keyframe - `Style::keyframe_from(&defaults, 1.0)`, a public trait function - compiles
//! and works; the macro expands the keyframe to a call of the *private* inherent method
//! `StyleKeyframeBuilder::values_from`, so on the unchanged checkout this file does not compile:
//!
//!     error[E0624]: method `values_from` is private
//!
//! With the fix, both tests pass.

use mina::prelude::*;

mod theme {
    use mina::prelude::*;

    #[derive(Animate, Clone, Debug, Default, PartialEq)]
    pub struct Style {
        pub elevation: f32,
        pub scale: f32,
    }
}

use theme::Style;

#[derive(Clone, Debug, Default, PartialEq, State)]
enum State {
    #[default]
    Idle,
    Hovered,
    Pressed,
}

type History = Vec<(State, Style, bool)>;

fn run(animator: &mut impl StateAnimator<State = State, Values = Style>) -> History {
    let mut history = Vec::new();
    let mut snapshot = |a: &dyn StateAnimator<State = State, Values = Style>| {
        history.push((a.current_state().clone(), a.current_values().clone(), a.is_ended()));
    };
    snapshot(animator);
    for state in [State::Hovered, State::Pressed, State::Idle, State::Pressed, State::Idle] {
        animator.set_state(&state);
        snapshot(animator);
        for _ in 0..4 {
            animator.advance(0.0625);
            snapshot(animator);
        }
    }
    history
}

#[test]
fn default_keyframe_of_a_type_from_another_module() {
    let mut from_macro = animator!(Style {
        default(State::Idle, { elevation: 0.0, scale: 1.0 }),
        State::Idle => 0.25s to default,
        State::Hovered => 0.5s to { elevation: 5.0, scale: 1.0 },
        State::Pressed => 0.1s from default to { scale: 1.1 }
    });

    let defaults = Style { elevation: 0.0, scale: 1.0 };
    let mut from_builder = StateAnimatorBuilder::new()
        .from_state(State::Idle)
        .from_values(defaults.clone())
        .on(
            State::Idle,
            Style::timeline()
                .duration_seconds(0.25)
                .keyframe(Style::keyframe_from(&defaults, 1.0)),
        )
        .on(
            State::Hovered,
            Style::timeline()
                .duration_seconds(0.5)
                .keyframe(Style::keyframe(1.0).elevation(5.0).scale(1.0)),
        )
        .on(
            State::Pressed,
            Style::timeline()
                .duration_seconds(0.1)
                .keyframe(Style::keyframe_from(&defaults, 0.0))
                .keyframe(Style::keyframe(1.0).scale(1.1)),
        )
        .build();

    assert_eq!(
        run(&mut from_macro),
        run(&mut from_builder),
        "the property demands that the animator! block - 'default' keyframes standing for the \
         initial values - behaves like its builder equivalent (left: macro, right: builder)"
    );
}

#[test]
fn default_keyframe_returns_to_the_initial_values() {
    let mut animator = animator!(Style {
        default(State::Idle, { elevation: 0.0, scale: 1.0 }),
        State::Idle => 0.25s to default,
        State::Pressed => 0.1s to { elevation: 2.0, scale: 1.1 }
    });
    animator.set_state(&State::Pressed);
    animator.advance(0.1);
    assert_eq!(animator.current_values(), &Style { elevation: 2.0, scale: 1.1 });
    animator.set_state(&State::Idle);
    animator.advance(0.25);
    assert_eq!(
        animator.current_values(),
        &Style { elevation: 0.0, scale: 1.0 },
        "'to default' must lead back to the values given in default(state, values)"
    );
}
