//! Property C20: building, evaluating and *querying* a timeline behaves correctly for every
//! repeat count, explicitly including the largest u32.
//!
//! Defect: `Repeat`'s ordering maps `Repeat::Infinite` and `Repeat::Times(u32::MAX)` to the same
//! ordinal (u32::MAX). The two compare as `Equal` although they are different values (`==` says
//! so) and although one is finite and the other is not. `MergedTimeline::repeat()` takes the
//! maximum by that ordering, so a merged timeline that contains an infinitely repeating component
//! reports a *finite* repeat count as soon as a `Times(u32::MAX)` component is listed after it -
//! while its `duration()` is infinite. The answer also depends on the order of the components.

use mina::prelude::*;
use std::cmp::Ordering;

#[derive(Animate, Clone, Debug, Default, PartialEq)]
struct Style {
    x: f32,
    y: f32,
}

fn spin_forever() -> StyleTimeline {
    Style::timeline()
        .duration_seconds(1.0)
        .repeat(Repeat::Infinite)
        .keyframe(Style::keyframe(1.0).x(1.0))
        .build()
}

fn pulse_max_times() -> StyleTimeline {
    Style::timeline()
        .duration_seconds(1.0)
        .repeat(Repeat::Times(u32::MAX))
        .keyframe(Style::keyframe(1.0).y(1.0))
        .build()
}

#[test]
fn infinite_is_greater_than_the_largest_finite_repeat_count() {
    assert_ne!(Repeat::Infinite, Repeat::Times(u32::MAX));
    assert_eq!(
        Repeat::Infinite.cmp(&Repeat::Times(u32::MAX)),
        Ordering::Greater,
        "an infinite repetition must order above every finite count, including the largest u32; \
         the library orders Repeat::Infinite and Repeat::Times(u32::MAX) as Equal although they are \
         not equal"
    );
    assert!(Repeat::Times(u32::MAX) < Repeat::Infinite);
}

#[test]
fn merged_timeline_with_an_infinite_component_reports_infinite_repeat() {
    let merged = MergedTimeline::of([spin_forever(), pulse_max_times()]);
    assert_eq!(merged.duration(), f32::INFINITY, "the merged timeline never ends");
    assert_eq!(
        merged.repeat(),
        Repeat::Infinite,
        "a merged timeline with an infinitely repeating component (duration() == inf) must report \
         Repeat::Infinite; the library reports the finite {:?}",
        merged.repeat()
    );
}

#[test]
fn merged_repeat_does_not_depend_on_the_order_of_the_components() {
    let a = MergedTimeline::of([spin_forever(), pulse_max_times()]).repeat();
    let b = MergedTimeline::of([pulse_max_times(), spin_forever()]).repeat();
    assert_eq!(
        a, b,
        "the maximum of the components' repeat settings cannot depend on the order in which the \
         components are listed"
    );
}
