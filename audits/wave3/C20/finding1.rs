//! Property C20: for every valid configuration (any repeat count including the largest u32,
//! extreme but finite durations) and every finite time >= 0 - "including times far beyond the
//! end, astronomically large times" - evaluating and querying an animator must behave sanely.
//!
//! Defect: the StateAnimator keeps its clock in a `Duration` and saturates it at `Duration::MAX`
//! (2^64 s ~ 1.8447e19 s). `is_ended()` and the choice of the evaluation time compare that
//! saturated clock with `Timeline::duration()`, which is an f32 and can be anything up to
//! f32::MAX (3.4e38). For every timeline whose total lies in (2^64 s, f32::MAX] the animator
//! therefore can never reach the end: however far it is advanced, the values freeze part-way
//! through the animation and `is_ended()` stays `false` for ever - while the timeline itself,
//! asked for the same time, is at its end.

use mina::prelude::*;

#[derive(Animate, Clone, Debug, Default, PartialEq)]
struct Style {
    x: f32,
    n: u8,
}

#[derive(Clone, Debug, Default, Eq, PartialEq, State)]
enum Phase {
    #[default]
    Idle,
    Run,
}

fn ramp(cycle_seconds: f32, repeat: Repeat) -> StyleTimeline {
    Style::timeline()
        .duration_seconds(cycle_seconds)
        .repeat(repeat)
        .keyframe(Style::keyframe(0.0).x(0.0).n(0))
        .keyframe(Style::keyframe(1.0).x(100.0).n(255))
        .build()
}

/// The largest repeat count with a moderate cycle: 5e9 s x 2^32 cycles = 2.147e19 s, finite and
/// representable in f32, but larger than Duration::MAX.
#[test]
fn largest_repeat_count_is_over_after_an_astronomically_large_time() {
    let timeline = ramp(5.0e9, Repeat::Times(u32::MAX));
    let total = timeline.duration();
    assert!(total.is_finite() && total < f32::MAX, "the total ({total:e} s) is representable in f32");

    // The timeline itself knows where it is at that time: at its end.
    let mut direct = Style::default();
    timeline.update(&mut direct, f32::MAX);
    assert_eq!(direct, Style { x: 100.0, n: 255 }, "timeline evaluated at f32::MAX");

    let mut animator = StateAnimatorBuilder::new()
        .from_state(Phase::Run)
        .on(Phase::Run, timeline)
        .build();
    // 3.4e38 s elapse: more than 1e19 times the total.
    animator.advance(f32::MAX);
    animator.advance(f32::MAX);
    assert!(
        animator.is_ended(),
        "the property demands that a time far beyond the end ({:e} s elapsed twice, total {total:e} s) is \
         treated as beyond the end; the library reports is_ended() == false and will do so for ever \
         (values stuck at {:?})",
        f32::MAX,
        animator.current_values()
    );
    assert_eq!(
        animator.current_values(),
        &Style { x: 100.0, n: 255 },
        "the property demands the final values once the time is beyond the end; the library froze \
         part-way through the animation"
    );
}

/// No single enormous step is needed: three steps of 1e19 s add up to 3e19 s > 2e19 s.
#[test]
fn sum_of_elapsed_times_beyond_the_total_ends_the_animation() {
    let mut animator = StateAnimatorBuilder::new()
        .from_state(Phase::Run)
        .on(Phase::Run, ramp(2.0e19, Repeat::None))
        .build();
    for _ in 0..3 {
        animator.advance(1.0e19);
    }
    assert!(
        animator.is_ended() && animator.current_values().x == 100.0,
        "3 x 1e19 s have elapsed on a timeline of 2e19 s, so it must be over with x == 100; \
         the library says is_ended() == {} and x == {}",
        animator.is_ended(),
        animator.current_values().x
    );
}

/// Alternating advance(f32::MAX) with set_state: the state that is entered afresh must be able to
/// finish as well, and a state change must not be needed to get an animation unstuck.
#[test]
fn alternating_huge_advances_and_state_changes_always_reach_the_end() {
    let mut animator = StateAnimatorBuilder::new()
        .from_state(Phase::Idle)
        .on(Phase::Idle, ramp(1.0, Repeat::None))
        .on(Phase::Run, ramp(1.0e19, Repeat::Times(1)))
        .build();
    animator.advance(f32::MAX);
    assert!(animator.is_ended(), "the one-second animation is over after f32::MAX seconds");
    animator.set_state(&Phase::Run);
    animator.advance(f32::MAX);
    assert!(
        animator.is_ended(),
        "2 cycles of 1e19 s are over after f32::MAX (3.4e38) seconds; the library says they are not \
         (values {:?})",
        animator.current_values()
    );
}
