//! Property C20: valid configurations "never turn finite inputs into NaN or infinity".
//!
//! Defect: blending from an extreme (but finite) start value to a moderate target under one of the
//! built-in Back easings produces infinity, and a state change while the value is infinite then
//! produces NaN. `f32::lerp` forms `a*(1-x) + b*x` in f64 (fix 1870ce7) but casts the sum back with
//! a plain `as f32`; the Back easings go down to x = -0.098 (and up to 1.098), so with
//! a = f32::MAX, b = 0 the sum is 1.098 * f32::MAX and the cast yields +inf. The infinite value is
//! stored in `current_values`; `set_state` hands it to `start_with`, and the next blend computes
//! inf * 0.0 = NaN as soon as the easing reaches exactly 1.0 (the Out easings do, a little before
//! the end of the segment).
//!
//! Everything here is a finite input: start value f32::MAX, target 0.0 / 5.0, durations of one
//! second, built-in easings, times in [0, 1].

use mina::prelude::*;

#[derive(Animate, Clone, Debug, Default, PartialEq)]
struct Style {
    x: f32,
}

#[derive(Clone, Debug, Default, Eq, PartialEq, State)]
enum Phase {
    #[default]
    Settle,
    Hover,
}

fn animator() -> impl StateAnimator<State = Phase, Values = Style> {
    StateAnimatorBuilder::new()
        .from_state(Phase::Settle)
        .from_values(Style { x: f32::MAX })
        .on(
            Phase::Settle,
            Style::timeline()
                .duration_seconds(1.0)
                .default_easing(Easing::InBack)
                .keyframe(Style::keyframe(1.0).x(0.0)),
        )
        .on(
            Phase::Hover,
            Style::timeline()
                .duration_seconds(1.0)
                .default_easing(Easing::OutQuad)
                .keyframe(Style::keyframe(1.0).x(5.0)),
        )
        .build()
}

#[test]
fn blend_from_f32_max_to_zero_under_inback_stays_finite() {
    let mut animator = animator();
    for step in 1..=10 {
        animator.advance(0.1);
        let x = animator.current_values().x;
        assert!(
            x.is_finite(),
            "finite inputs (start f32::MAX, target 0.0, Easing::InBack, t = {:.1} s of 1 s) must give a \
             finite value; the library produced {x}",
            step as f32 * 0.1
        );
    }
    assert_eq!(animator.current_values().x, 0.0);
}

#[test]
fn state_change_during_the_overshoot_does_not_produce_nan() {
    let mut animator = animator();
    animator.advance(0.4);
    animator.set_state(&Phase::Hover);
    // 0.997 of the way: OutQuad has reached exactly 1.0 here.
    animator.advance(0.997);
    let x = animator.current_values().x;
    assert!(
        !x.is_nan() && x.is_finite(),
        "finite inputs must never turn into NaN or infinity; after blending out of the InBack \
         overshoot the library produced {x}"
    );
}
