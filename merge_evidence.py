#!/usr/bin/env python3
"""Merges the per-engine / per-profile evidence parts of a multi-engine check into
evidence/<id>.json. Counts are sums of what the parts measured; distinct_nontrivial is summed over
engines for the release profile only (the dev profile re-executes the same cases)."""
import glob
import json
import os
import sys

prop, tier, seed, rc, wall, cross = sys.argv[1:7]
vdir = os.environ.get("VERIF_DIR", "/verif")
parts = sorted(glob.glob(os.path.join(vdir, "evidence", f"{prop}.part.*.json")))
if not parts:
    print("merge_evidence: no parts found", file=sys.stderr)
    sys.exit(2)
evaluations = 0
distinct = 0
runs = 0
samples = []
rules = []
per_part = {}
counters = {}
violations = 0
real, simulated = [], []
sim_seconds = 0.0
astro = 0.0
for p in parts:
    j = json.load(open(p))
    name = os.path.basename(p)[len(prop) + 6:-5]  # engine.profile
    cov = j["coverage"]
    evaluations += cov["evaluations"]
    runs += cov.get("runs", 0)
    violations += j.get("violations", 0)
    if name.endswith(".release"):
        distinct += cov["distinct_nontrivial"]
        samples.extend(cov["samples"][:2])
        rules.append(f"[{name.split('.')[0]}] {cov['rule']}")
        for k, v in cov.get("counters_faults_and_probes", {}).items():
            counters[f"{name.split('.')[0]}.{k}"] = v
        for c in cov.get("components_real", []):
            if c not in real:
                real.append(c)
        for c in cov.get("components_simulated", []):
            if c not in simulated:
                simulated.append(c)
        sim_seconds += cov.get("simulated_seconds", 0.0)
        astro += cov.get("simulated_seconds_astronomical_jumps", 0.0)
    per_part[name] = {
        "runs": cov.get("runs"),
        "evaluations": cov["evaluations"],
        "distinct_nontrivial": cov["distinct_nontrivial"],
        "observation_log_hash": cov.get("observation_log_hash"),
        "runs_per_hour": cov.get("runs_per_hour"),
        "wall_s": j.get("wall_s"),
        "determinism_self_check": cov.get("determinism_self_check"),
        "violation": cov.get("violation"),
    }
cross_profile = {}
if os.path.exists(cross):
    for line in open(cross):
        e, n = line.split()
        cross_profile[e] = {"runs_compared_dev_vs_release": int(n), "differences": 0}
wall = float(wall)
ev = {
    "property_id": prop,
    "tier": tier,
    "seed": int(seed) & (2**63 - 1),
    "level": "exploration",
    "coverage": {
        "evaluations": evaluations,
        "distinct_nontrivial": distinct,
        "rule": " || ".join(rules) + " || every run is executed under the dev profile (overflow checks, debug assertions) and the release profile with the same seed, and the per-run observation logs are compared",
        "samples": samples,
        "runs": runs,
        "runs_per_hour": round(runs / wall * 3600) if wall > 0 else 0,
        "seeds_per_hour": round(runs / wall * 3600) if wall > 0 else 0,
        "simulated_seconds": sim_seconds,
        "simulated_seconds_astronomical_jumps": astro,
        "parts": per_part,
        "cross_profile": cross_profile,
        "counters_faults_and_probes": counters,
        "components_real": real,
        "components_simulated": simulated,
    },
    "assumptions": [
        "seeded search: a clean batch is evidence, not proof",
        "configurations whose total duration is not representable in f32, non-finite inputs, negative/NaN times and integer overshoot with Back easings are outside the property's domain and not generated",
        "dev profile = opt-level 1 with overflow checks and debug assertions; release = opt-level 3 without",
    ],
    "wall_s": round(wall, 3),
    "violations": 1 if int(rc) == 1 else 0,
}
with open(os.path.join(vdir, "evidence", f"{prop}.json"), "w") as f:
    json.dump(ev, f, indent=1)
    f.write("\n")
