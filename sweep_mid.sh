#!/usr/bin/env bash
# sweep_mid.sh [seed] : every claimed check at the thorough tier's knobs (long histories, marathon
# tails up to 4000 operations) but a tenth of its runs - what a background sweep can finish in half
# an hour. Evidence/replays go to a scratch directory kept until the end (replays are copied to
# ./sweep_replays when something is found). Under `vp run --with-repo` it works against the
# snapshot of /repo's HEAD.
seed="${1:-20231009}"
here="$(cd "$(dirname "$0")" && pwd)"
if [ -n "${VP_RUN_REPO:-}" ] && [ "$here" != /verif ]; then
  sed -i "s#\"/repo#\"$VP_RUN_REPO#g" "$here"/sim/*/Cargo.toml
fi
out="$(mktemp -d)"
runs_of() { case "$1" in C06) echo 1000000 ;; C09) echo 1600000 ;; C16) echo 1200000 ;; C18|C19) echo 1000000 ;; C20) echo 400000 ;; *) echo 4000000 ;; esac; }
for p in C04 C05 C07 C08 C06 C09 C16 C18 C19 C20; do
  res="$(VERIF_SEED=$seed VERIF_OUT_DIR=$out "$here/check" $p thorough --runs "$(runs_of $p)" 2>&1)"; code=$?
  echo "seed=$seed $p runs=$(runs_of $p) exit=$code $(echo "$res" | grep -E '^violation|^VIOLATION|HARNESS|BUILD-ERROR|disagree' | head -2 | tr '\n' ' ' | cut -c1-400)"
  if [ $code -ne 0 ]; then mkdir -p "$here/sweep_replays"; cp "$out"/replays/* "$here/sweep_replays/" 2>/dev/null; fi
done
rm -rf "$out"
