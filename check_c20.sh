#!/usr/bin/env bash
# C20: valid configurations never panic / go non-finite, and debug == release.
# Runs every engine that has a C20 surface under BOTH build profiles with the same seeds,
# then diffs the per-run observation logs between the profiles.
set -u
HOME_DIR="${HOME_DIR:-$(cd "$(dirname "${BASH_SOURCE[0]}")" && pwd)}"
VERIF_DIR="${VERIF_DIR:-$HOME_DIR}"
export VERIF_DIR
SIM="$HOME_DIR/sim"
export CARGO_NET_OFFLINE=true
tier="${1:-quick}"; shift || true
seed="${VERIF_SEED:-20231009}"
start=$(date +%s.%N)

ENGINES=()
for e in core_sim timeline_sim bevy_sim; do [ -d "$SIM/$e" ] && ENGINES+=("$e"); done

work="$(mktemp -d)"
trap 'rm -rf "$work"' EXIT
mkdir -p "$VERIF_DIR/evidence" "$VERIF_DIR/replays"
rm -f "$VERIF_DIR"/evidence/C20.part.*.json

for e in "${ENGINES[@]}"; do
  for profile in release dev; do
    flag=""; [ "$profile" = release ] && flag="--release"
    if ! (cd "$SIM" && cargo build --offline $flag -p "$e" >"$work/build.log" 2>&1); then
      echo "BUILD-ERROR package=$e profile=$profile"; grep -E "^error" -A6 "$work/build.log" | head -40; exit 2
    fi
  done
done

rc=0
for e in "${ENGINES[@]}"; do
  for profile in release dev; do
    dir=release; [ "$profile" = dev ] && dir=debug
    bin="$SIM/target/$dir/$e"
    det=0; [ "$profile" = release ] && det=32
    "$bin" check --property C20 --tier "$tier" --seed "$seed" \
        --obs-log "$work/$e.$profile.obs" --evidence-name "C20.part.$e.$profile" \
        --determinism-sample "$det" "$@"
    code=$?
    if [ $code -ne 0 ]; then rc=$code; break 2; fi
  done
  # cross-profile diff of the observation logs (same seeds => same runs)
  if [ -f "$work/$e.dev.obs" ]; then
    first="$(diff <(sort -n "$work/$e.release.obs") <(sort -n "$work/$e.dev.obs") | grep '^[<>]' | awk '{print $2}' | sort -n | head -1)"
    total="$(wc -l < "$work/$e.release.obs")"
    if [ -n "$first" ]; then
      replay="$VERIF_DIR/replays/C20-$seed-$first-profile-divergence.json"
      "$SIM/target/release/$e" export --property C20 --tier "$tier" --seed "$seed" --indices "$first" "$replay" || exit 2
      # confirm in fresh processes
      a="$("$SIM/target/release/$e" obs-file "$replay")"; b="$("$SIM/target/debug/$e" obs-file "$replay")"
      if [ "$a" = "$b" ]; then
        echo "HARNESS-ERROR: cross-profile divergence of run $first ($e) did not reproduce from its replay file"; exit 2
      fi
      echo "debug and release disagree on run $first of $e: release[$a] dev[$b]"
      echo "VIOLATION property=C20 replay=$replay"
      rc=1; break
    fi
    echo "cross-profile: $e: $total runs, observation logs identical in dev and release"
    echo "$e $total" >> "$work/crossprofile.txt"
  fi
done

end=$(date +%s.%N)
python3 "$HOME_DIR/merge_evidence.py" C20 "$tier" "$seed" "$rc" "$(echo "$end - $start" | bc)" "$work/crossprofile.txt" || exit 2
rm -f "$VERIF_DIR"/evidence/C20.part.*.json
exit $rc
