//! timeline_sim: a pool of long-lived real timeline objects (single and merged) is driven by a
//! seeded *query schedule* - evaluations at arbitrary times in arbitrary order (scrubbing
//! forwards, backwards, randomly, repeating a time, landing on phase boundaries) into target
//! slots with arbitrary previous contents, interleaved with start_with, clone and drop.
//! Model per object: (specification, last start values). Expected result of every evaluation =
//! a *fresh* timeline built from the specification (+ start_with(last)), evaluated once into a
//! fresh default target. Decides C09 and the timeline surface of C20.

use mina::prelude::*;
use simkit::driver::{main_cli, Engine, RunOutcome, Tier, Violation};
use simkit::json::{f32_from_json, f32_to_json, Json};
use simkit::panic::catch;
use simkit::rng::Rng;
use simkit::{hash_words, ObsHash};
use simmodel::gen::{gen_knobs_with, gen_merged, gen_timeline, gen_vals, Knobs};
use simmodel::oracle::{self, PropVal};
use simmodel::*;

#[derive(Clone, Debug, PartialEq)]
enum ObjSpec {
    Single(TlSpec),
    Merged(MergedSpec),
}

impl ObjSpec {
    fn as_merged(&self) -> MergedSpec {
        match self {
            ObjSpec::Single(t) => MergedSpec {
                parts: vec![t.clone()],
            },
            ObjSpec::Merged(m) => m.clone(),
        }
    }
    fn to_json(&self) -> Json {
        match self {
            ObjSpec::Single(t) => Json::obj().set("single", t.to_json()),
            ObjSpec::Merged(m) => Json::obj().set("merged", m.to_json()),
        }
    }
    fn from_json(j: &Json) -> Result<ObjSpec, String> {
        if let Some(t) = j.get("single") {
            Ok(ObjSpec::Single(TlSpec::from_json(t)?))
        } else {
            Ok(ObjSpec::Merged(MergedSpec::from_json(j.req("merged")?)?))
        }
    }
}

enum Obj {
    Single(ValsTimeline),
    Merged(MergedTimeline<ValsTimeline>),
}

impl Obj {
    fn build(spec: &ObjSpec) -> Obj {
        match spec {
            ObjSpec::Single(t) => Obj::Single(t.build()),
            ObjSpec::Merged(m) => Obj::Merged(m.build()),
        }
    }
    fn update(&self, v: &mut Vals, t: f32) {
        match self {
            Obj::Single(x) => x.update(v, t),
            Obj::Merged(x) => x.update(v, t),
        }
    }
    fn start_with(&mut self, v: &Vals) {
        match self {
            Obj::Single(x) => x.start_with(v),
            Obj::Merged(x) => x.start_with(v),
        }
    }
    fn assign_from(&mut self, src: &Obj) -> bool {
        match (self, src) {
            (Obj::Single(d), Obj::Single(s)) => {
                d.clone_from(s);
                true
            }
            (Obj::Merged(d), Obj::Merged(s)) => {
                d.clone_from(s);
                true
            }
            _ => false,
        }
    }
    fn duplicate(&self) -> Obj {
        match self {
            Obj::Single(x) => Obj::Single(x.clone()),
            Obj::Merged(x) => Obj::Merged(x.clone()),
        }
    }
    fn meta(&self) -> (f32, f32, Option<f32>, Repeat) {
        match self {
            Obj::Single(x) => (x.delay(), x.duration(), x.cycle_duration(), x.repeat()),
            Obj::Merged(x) => (x.delay(), x.duration(), x.cycle_duration(), x.repeat()),
        }
    }
}

fn meta_eq(a: &(f32, f32, Option<f32>, Repeat), b: &(f32, f32, Option<f32>, Repeat)) -> bool {
    a.0.to_bits() == b.0.to_bits()
        && a.1.to_bits() == b.1.to_bits()
        && a.2.map(f32::to_bits) == b.2.map(f32::to_bits)
        && a.3 == b.3
}

#[derive(Clone, Debug, PartialEq)]
enum TOp {
    Update { obj: usize, slot: usize, t: f32 },
    StartWith { obj: usize, v: Vals },
    Clone { obj: usize },
    /// `dst.clone_from(&src)` (same kind of object: both plain or both merged)
    CloneFrom { dst: usize, src: usize },
    Drop { obj: usize },
    Dirty { slot: usize, v: Vals },
}

#[derive(Clone, Debug, PartialEq)]
struct Scn {
    pool: Vec<ObjSpec>,
    slots: Vec<Vals>,
    ops: Vec<(TOp, &'static str)>,
}

const KINDS: [&str; 12] = [
    "random", "forward", "backward", "repeat_same_time", "boundary", "near_boundary", "beyond_end",
    "astronomical", "negative", "negative_zero", "op", "spin",
];

/// An update of kind "spin" is preceded by this many evaluations of the same object, at the same
/// time, into a scratch target nobody looks at: a timeline that has been played for a long while
/// (thousands of evaluations of one object) must still answer like a fresh one.
const SPIN: usize = 6000;

fn kind_static(s: &str) -> &'static str {
    KINDS.iter().copied().find(|k| *k == s).unwrap_or("op")
}

fn scn_to_json(s: &Scn) -> Json {
    Json::obj()
        .set("pool", Json::Arr(s.pool.iter().map(|o| o.to_json()).collect()))
        .set("slots", Json::Arr(s.slots.iter().map(vals_to_json).collect()))
        .set(
            "schedule",
            Json::Arr(
                s.ops
                    .iter()
                    .map(|(op, kind)| {
                        let j = match op {
                            TOp::Update { obj, slot, t } => Json::obj()
                                .set("update", *obj)
                                .set("slot", *slot)
                                .set("t", f32_to_json(*t)),
                            TOp::StartWith { obj, v } => {
                                Json::obj().set("start_with", *obj).set("values", vals_to_json(v))
                            }
                            TOp::Clone { obj } => Json::obj().set("clone", *obj),
                            TOp::CloneFrom { dst, src } => Json::obj().set("clone_from_dst", *dst).set("src", *src),
                            TOp::Drop { obj } => Json::obj().set("drop", *obj),
                            TOp::Dirty { slot, v } => {
                                Json::obj().set("dirty", *slot).set("values", vals_to_json(v))
                            }
                        };
                        j.set("kind", *kind)
                    })
                    .collect(),
            ),
        )
}

fn scn_from_json(j: &Json) -> Result<Scn, String> {
    let mut ops = Vec::new();
    for o in j.req("schedule")?.as_arr()? {
        let kind = kind_static(o.get("kind").and_then(|k| k.as_str().ok()).unwrap_or("op"));
        let op = if let Some(obj) = o.get("update") {
            TOp::Update {
                obj: obj.as_i64()? as usize,
                slot: o.req("slot")?.as_i64()? as usize,
                t: f32_from_json(o.req("t")?)?,
            }
        } else if let Some(obj) = o.get("start_with") {
            TOp::StartWith {
                obj: obj.as_i64()? as usize,
                v: vals_from_json(o.req("values")?)?,
            }
        } else if let Some(dst) = o.get("clone_from_dst") {
            TOp::CloneFrom {
                dst: dst.as_i64()? as usize,
                src: o.req("src")?.as_i64()? as usize,
            }
        } else if let Some(obj) = o.get("clone") {
            TOp::Clone {
                obj: obj.as_i64()? as usize,
            }
        } else if let Some(obj) = o.get("drop") {
            TOp::Drop {
                obj: obj.as_i64()? as usize,
            }
        } else if let Some(slot) = o.get("dirty") {
            TOp::Dirty {
                slot: slot.as_i64()? as usize,
                v: vals_from_json(o.req("values")?)?,
            }
        } else {
            return Err("bad op".into());
        };
        ops.push((op, kind));
    }
    Ok(Scn {
        pool: j
            .req("pool")?
            .as_arr()?
            .iter()
            .map(ObjSpec::from_json)
            .collect::<Result<_, _>>()?,
        slots: j
            .req("slots")?
            .as_arr()?
            .iter()
            .map(vals_from_json)
            .collect::<Result<_, _>>()?,
        ops,
    })
}

fn gen_obj(rng: &mut Rng, k: &Knobs) -> ObjSpec {
    if rng.chance(0.5) {
        ObjSpec::Single(gen_timeline(rng, k))
    } else {
        ObjSpec::Merged(gen_merged(rng, k))
    }
}

fn dirty_vals(rng: &mut Rng, k: &Knobs) -> Vals {
    let mut v = gen_vals(rng, k);
    // zeros of either sign in the prior contents of the target (and as start values)
    if rng.chance(0.1) {
        v.a = if rng.chance(0.5) { -0.0 } else { 0.0 };
    }
    if rng.chance(0.1) {
        v.b = if rng.chance(0.5) { -0.0 } else { 0.0 };
    }
    v.tag = rng.next_u64() as u32;
    v
}

/// Duplicates one keyframe that defines `a` (and sometimes `n`) at the same position with other
/// values: a discontinuity exactly at a keyframe position.
fn add_step_keyframe(rng: &mut Rng, tl: &mut TlSpec, k: &Knobs) {
    let candidates: Vec<usize> = (0..tl.kfs.len()).filter(|&i| tl.kfs[i].a.is_some() && !tl.kfs[i].via_from).collect();
    if candidates.is_empty() || tl.kfs.len() > 64 {
        return;
    }
    let i = *rng.pick(&candidates);
    let mut step = tl.kfs[i].clone();
    step.a = Some(simmodel::gen::gen_f32_value(rng, k));
    step.b = None;
    step.k = None;
    step.n = if step.n.is_some() && rng.chance(0.5) { Some(simmodel::gen::gen_i32_value(rng, k)) } else { None };
    step.easing = None;
    tl.kfs.insert(i + 1, step);
}

fn generate(rng: &mut Rng, property: &str, deep: bool) -> Scn {
    let extreme = property == "C20";
    let knobs = gen_knobs_with(rng, extreme, true);
    let n_pool = rng.range(1, 3) as usize;
    let mut pool: Vec<ObjSpec> = (0..n_pool).map(|_| gen_obj(rng, &knobs)).collect();
    // C09 only compares the real timeline with the real timeline, so it may also use "step"
    // keyframes - the same property keyframed twice at one position - which the other checks keep
    // out of their domain (their reference semantics does not define the value *at* the step).
    // Whatever mina answers there, it has to answer the same after any history.
    if property == "C09" && rng.chance(0.15) {
        // a keyframe value that is a zero of either sign
        let i = rng.usize_below(pool.len());
        let tl = match &mut pool[i] {
            ObjSpec::Single(tl) => Some(tl),
            ObjSpec::Merged(m) if !m.parts.is_empty() => {
                let j = rng.usize_below(m.parts.len());
                Some(&mut m.parts[j])
            }
            ObjSpec::Merged(_) => None,
        };
        if let Some(tl) = tl {
            for kf in tl.kfs.iter_mut() {
                if kf.a.is_some() && !kf.via_from && rng.chance(0.5) {
                    kf.a = Some(if rng.chance(0.5) { -0.0 } else { 0.0 });
                }
            }
        }
    }
    if property == "C09" && rng.chance(0.2) {
        let i = rng.usize_below(pool.len());
        let tl = match &mut pool[i] {
            ObjSpec::Single(tl) => Some(tl),
            ObjSpec::Merged(m) if !m.parts.is_empty() => {
                let j = rng.usize_below(m.parts.len());
                Some(&mut m.parts[j])
            }
            ObjSpec::Merged(_) => None,
        };
        if let Some(tl) = tl {
            add_step_keyframe(rng, tl, &knobs);
        }
    }
    // Siblings: a second timeline that differs from the first in one timing parameter only - the
    // kind of pair that collides in a cache keyed on "the timing, more or less" - queried
    // back-to-back at the same times, some of them far out.
    let mut sibling_times: Vec<f32> = Vec::new();
    if property == "C09" && pool.len() < 3 && rng.chance(0.12) {
        if let ObjSpec::Single(first) = &pool[0] {
            let mut a = first.clone();
            let mut b = first.clone();
            match rng.below(4) {
                0 => {
                    // endless against "as often as a u32 can count", with a cycle short enough
                    // for the difference to be within reach
                    a.duration = *rng.pick(&[0.003f32, 0.001, 0.0005]);
                    b.duration = a.duration;
                    a.repeat = Rep::Infinite;
                    b.repeat = Rep::Times(u32::MAX);
                    let beyond = a.delay as f64 + a.duration as f64 * 4_294_967_296.0;
                    sibling_times.push((beyond * 1.5) as f32);
                    sibling_times.push((beyond * 4.0) as f32);
                }
                1 => {
                    a.repeat = Rep::None;
                    b.repeat = Rep::Times(0);
                }
                2 => {
                    b.reverse = !a.reverse;
                }
                _ => {
                    b.delay = if a.delay == 0.0 { a.duration * 0.5 } else { 0.0 };
                }
            }
            simmodel::gen::sanitize_total(&mut a);
            simmodel::gen::sanitize_total(&mut b);
            pool[0] = ObjSpec::Single(a);
            pool.push(ObjSpec::Single(b));
        }
    }
    let n_pool = pool.len();
    let n_slots = rng.range(1, 3) as usize;
    let slots: Vec<Vals> = (0..n_slots).map(|_| dirty_vals(rng, &knobs)).collect();
    // bookkeeping: which object indices are alive, and the spec index they descend from
    let mut alive: Vec<(usize, usize)> = (0..n_pool).map(|i| (i, i)).collect();
    let mut next_index = n_pool;
    let n_ops = if deep && rng.chance(0.33) { rng.range(40, 160) as usize } else { rng.range(4, 40) as usize };
    let mut ops: Vec<(TOp, &'static str)> = Vec::new();
    let mut last_t: f32 = 0.0;
    let p_start = *rng.pick(&[0.0, 0.1, 0.3]);
    let p_clone = *rng.pick(&[0.0, 0.08, 0.2]);
    let p_drop = *rng.pick(&[0.0, 0.05]);
    let p_dirty = *rng.pick(&[0.0, 0.1, 0.3]);
    let scrub = rng.below(4);
    // A marathon run continues the finished schedule with a long tail drawn from a stream of its
    // own, forked from one extra value at the end of the main stream (all other runs, and the
    // first part of this one, stay what they were).
    let mut target_ops = n_ops;
    let mut tail_rng: Option<Rng> = None;
    loop {
    while ops.len() < target_ops {
        let rng: &mut Rng = match tail_rng.as_mut() {
            Some(r) => r,
            None => &mut *rng,
        };
        let (obj, spec_idx) = *rng.pick(&alive);
        if rng.chance(p_start) {
            ops.push((
                TOp::StartWith {
                    obj,
                    v: dirty_vals(rng, &knobs),
                },
                "op",
            ));
            continue;
        }
        if rng.chance(p_clone) && alive.len() < 6 {
            ops.push((TOp::Clone { obj }, "op"));
            alive.push((next_index, spec_idx));
            next_index += 1;
            continue;
        }
        if rng.chance(p_clone * 0.7) && alive.len() > 1 {
            let (src, src_spec) = *rng.pick(&alive);
            let same_kind = matches!(
                (&pool[spec_idx], &pool[src_spec]),
                (ObjSpec::Single(_), ObjSpec::Single(_)) | (ObjSpec::Merged(_), ObjSpec::Merged(_))
            );
            if src != obj && same_kind {
                ops.push((TOp::CloneFrom { dst: obj, src }, "op"));
                // the destination now descends from the source's specification
                for a in alive.iter_mut() {
                    if a.0 == obj {
                        a.1 = src_spec;
                    }
                }
                continue;
            }
        }
        if rng.chance(p_drop) && alive.len() > 1 {
            ops.push((TOp::Drop { obj }, "op"));
            alive.retain(|(i, _)| *i != obj);
            continue;
        }
        if rng.chance(p_dirty) {
            ops.push((
                TOp::Dirty {
                    slot: rng.usize_below(n_slots),
                    v: dirty_vals(rng, &knobs),
                },
                "op",
            ));
            continue;
        }
        let m = pool[spec_idx].as_merged();
        let total = oracle::merged_total(&m).unwrap_or(20.0).min(1e6);
        let span = (total * 1.3 + 1.0) as f32;
        let (t, kind): (f32, &'static str) = match rng.below(10) {
            0 => (last_t, "repeat_same_time"),
            1 | 2 => {
                let bs = oracle::boundaries(&m, 3);
                if bs.is_empty() {
                    ((rng.unit() as f32) * span, "random")
                } else {
                    let b = *rng.pick(&bs) as f32;
                    match rng.below(3) {
                        0 => (b, "boundary"),
                        1 => (f32::from_bits(b.to_bits().saturating_sub(1)), "near_boundary"),
                        _ => (f32::from_bits(b.to_bits() + 1), "near_boundary"),
                    }
                }
            }
            3 if rng.chance(0.3) => (-(rng.unit() as f32) * span, "negative"),
            3 if rng.chance(0.2) => (-0.0f32, "negative_zero"),
            3 => (span * (1.0 + 10.0 * rng.unit() as f32), "beyond_end"),
            4 if extreme => (
                *rng.pick(&[1e10f32, 1e19, 1e20, 1e30, f32::MAX, f32::MIN_POSITIVE, 1e-30]),
                "astronomical",
            ),
            _ => match scrub {
                0 => (last_t + (rng.unit() as f32) * span * 0.1, "forward"),
                1 => ((last_t - (rng.unit() as f32) * span * 0.1).max(0.0), "backward"),
                _ => ((rng.unit() as f32) * span, "random"),
            },
        };
        let t = if t.is_finite() { t } else { 0.0 };
        // (with siblings in the pool: sometimes one of the far-out times)
        let (t, kind) = if !sibling_times.is_empty() && rng.chance(0.3) {
            (*rng.pick(&sibling_times), "sibling_far_out")
        } else {
            (t, kind)
        };
        last_t = t;
        ops.push((
            TOp::Update {
                obj,
                slot: rng.usize_below(n_slots),
                t,
            },
            kind,
        ));
        // the same time on another live timeline right away
        if alive.len() > 1 && rng.chance(if sibling_times.is_empty() { 0.08 } else { 0.6 }) {
            let (other, _) = *rng.pick(&alive);
            if other != obj {
                ops.push((
                    TOp::Update {
                        obj: other,
                        slot: rng.usize_below(n_slots),
                        t,
                    },
                    "same_time_on_another_timeline",
                ));
            }
        }
    }
    if tail_rng.is_some() {
        break;
    }
    let fork = rng.next_u64();
    if fork % 97 == 0 {
        let mut r = Rng::new(fork ^ 0x6d61_7261_7468_6f6e);
        target_ops = ops.len() + r.range(200, if deep { 4500 } else { 1500 }) as usize;
        tail_rng = Some(r);
    } else {
        break;
    }
    }
    // in the tail of a marathon run one or two updates are made on a long-played object
    if let Some(r) = tail_rng.as_mut() {
        let updates: Vec<usize> = (n_ops.min(ops.len())..ops.len()).filter(|i| matches!(ops[*i].0, TOp::Update { .. })).collect();
        if !updates.is_empty() {
            for _ in 0..r.range(1, 2) {
                let i = updates[r.usize_below(updates.len())];
                ops[i].1 = "spin";
            }
        }
    }
    Scn { pool, slots, ops }
}

/// A struct whose animated fields are named like the local variables of the code that
/// derive(Animate) generates (`frame_index`, `normalized_time`, `time`, `values`): evaluation must
/// still be a pure function of time - independent of the target's previous contents - for every
/// field. (Names that already fail to compile on the unchanged code, like `target`, are avoided.)
#[derive(Animate, Clone, Debug, Default, PartialEq)]
struct Hygiene {
    #[animate]
    frame_index: usize,
    #[animate]
    normalized_time: f32,
    #[animate]
    time: f32,
    #[animate]
    alpha: f32,
    #[animate]
    values: i32,
    untouched: u32,
}

fn hygiene_probe(times: &[f32], variant: u64) -> Option<String> {
    let tl = TimelineBuilder::build(
        Hygiene::timeline()
            .duration_seconds(2.0)
            .delay_seconds(if variant & 1 == 1 { 0.5 } else { 0.0 })
            .reverse(variant & 2 == 2)
            .keyframe(Hygiene::keyframe(0.0).frame_index(3).normalized_time(0.25).time(10.0).alpha(0.0).values(-5))
            .keyframe(Hygiene::keyframe(0.5).frame_index(40).alpha(1.0))
            .keyframe(Hygiene::keyframe(1.0).frame_index(7).normalized_time(0.75).time(-10.0).alpha(0.5).values(50)),
    );
    let dirty_a = Hygiene { frame_index: 0, normalized_time: 0.0, time: 0.0, alpha: 0.0, values: 0, untouched: 11 };
    let dirty_b = Hygiene { frame_index: 2, normalized_time: 0.9, time: 123.0, alpha: -4.0, values: 77, untouched: 11 };
    let dirty_c = Hygiene { frame_index: 999, normalized_time: -3.0, time: 1.0e6, alpha: 9.0, values: -1, untouched: 11 };
    let copy = tl.clone();
    for t in times {
        let (mut a, mut b, mut c) = (dirty_a.clone(), dirty_b.clone(), dirty_c.clone());
        tl.update(&mut a, *t);
        tl.update(&mut b, *t);
        copy.update(&mut c, *t);
        if a != b || a != c {
            return Some(format!(
                "struct with fields named like generated locals: at t={t} the result depends on the target's previous contents: {a:?} vs {b:?} vs (clone) {c:?}"
            ));
        }
    }
    None
}

fn viol(property: &str, clause: &str, step: usize, detail: String, signature: String) -> Violation {
    Violation {
        property: property.into(),
        clause: clause.into(),
        step,
        detail,
        signature,
    }
}

struct Live {
    obj: Obj,
    spec: usize,
    last_start: Option<Vals>,
    meta: (f32, f32, Option<f32>, Repeat),
}

fn execute(scn: &Scn, property: &str) -> RunOutcome {
    simmodel::normalise_hidden_state();
    let mut out = RunOutcome::default();
    let mut h = ObsHash::default();
    macro_rules! bail_panic {
        ($p:expr, $step:expr, $what:expr) => {{
            let p = $p;
            h.str("panic");
            h.str(&p.message);
            out.obs_hash = h.0;
            out.violation = Some(viol(
                property,
                &format!("panic@{}:{}", p.file, p.line),
                $step,
                format!("{} panicked: {}", $what, p.describe()),
                "panic".into(),
            ));
            return out;
        }};
    }
    let mut live: Vec<Option<Live>> = Vec::new();
    for (i, spec) in scn.pool.iter().enumerate() {
        match catch(|| {
            let o = Obj::build(spec);
            let m = o.meta();
            // every public trait of a timeline is part of "never panics": formatting it for a
            // log line (`{:?}`) must not panic either, whatever its (finite) configuration
            if property == "C20" {
                if let Obj::Single(x) = &o {
                    std::hint::black_box(format!("{x:?}").len());
                }
            }
            (o, m)
        }) {
            Ok((obj, meta)) => live.push(Some(Live {
                obj,
                spec: i,
                last_start: None,
                meta,
            })),
            Err(p) => bail_panic!(p, 0, "building a timeline"),
        }
    }
    let mut slots = scn.slots.clone();

    for (step, (op, kind)) in scn.ops.iter().enumerate() {
        out.steps += 1;
        out.count(&format!("schedule_kind.{kind}"));
        match op {
            TOp::Dirty { slot, v } => {
                if let Some(s) = slots.get_mut(*slot) {
                    *s = v.clone();
                }
            }
            TOp::Drop { obj } => {
                if let Some(l) = live.get_mut(*obj) {
                    *l = None;
                }
                out.count("op.drop");
            }
            TOp::CloneFrom { dst, src } => {
                if dst != src {
                    let src_info = live.get(*src).and_then(|l| l.as_ref()).map(|l| (l.obj.duplicate(), l.spec, l.last_start.clone(), l.meta));
                    // (duplicate() is only used to hold a borrow-free copy of the source object)
                    if let (Some((src_obj, spec, last_start, meta)), Some(Some(d))) = (src_info, live.get_mut(*dst)) {
                        let ok = match catch(|| d.obj.assign_from(&src_obj)) {
                            Ok(ok) => ok,
                            Err(p) => bail_panic!(p, step, "clone_from"),
                        };
                        if ok {
                            d.spec = spec;
                            d.last_start = last_start;
                            out.count("op.clone_from");
                            let m = match catch(|| d.obj.meta()) {
                                Ok(m) => m,
                                Err(p) => bail_panic!(p, step, "metadata"),
                            };
                            out.evaluations += 1;
                            if !meta_eq(&m, &meta) {
                                out.violation = Some(viol(
                                    property,
                                    "clone-metadata",
                                    step,
                                    format!("after clone_from the destination reports {:?}, the source {:?}", m, meta),
                                    "clone_from".into(),
                                ));
                            }
                            d.meta = m;
                        }
                    }
                }
            }
            TOp::Clone { obj } => {
                let new = match live.get(*obj).and_then(|l| l.as_ref()) {
                    Some(l) => match catch(|| {
                        let o = l.obj.duplicate();
                        let m = o.meta();
                        (o, m)
                    }) {
                        Ok((o, m)) => {
                            out.evaluations += 1;
                            if !meta_eq(&m, &l.meta) {
                                out.violation = Some(viol(
                                    property,
                                    "clone-metadata",
                                    step,
                                    format!("clone reports {:?}, original {:?}", m, l.meta),
                                    "clone".into(),
                                ));
                            }
                            Some(Live {
                                obj: o,
                                spec: l.spec,
                                last_start: l.last_start.clone(),
                                meta: m,
                            })
                        }
                        Err(p) => bail_panic!(p, step, "clone"),
                    },
                    None => None,
                };
                out.count("op.clone");
                live.push(new);
            }
            TOp::StartWith { obj, v } => {
                if let Some(Some(l)) = live.get_mut(*obj) {
                    if let Err(p) = catch(|| l.obj.start_with(v)) {
                        bail_panic!(p, step, "start_with");
                    }
                    if l.last_start.is_some() {
                        out.count("probe.start_with_replaced_earlier");
                    }
                    l.last_start = Some(v.clone());
                    out.count("op.start_with");
                    let m = match catch(|| l.obj.meta()) {
                        Ok(m) => m,
                        Err(p) => bail_panic!(p, step, "metadata"),
                    };
                    out.evaluations += 1;
                    if !meta_eq(&m, &l.meta) {
                        out.violation = Some(viol(
                            property,
                            "start-with-changed-metadata",
                            step,
                            format!("delay/duration/cycle/repeat {:?} became {:?} after start_with", l.meta, m),
                            "start_with".into(),
                        ));
                    }
                }
            }
            TOp::Update { obj, slot, t } => {
                let (Some(Some(l)), true) = (live.get(*obj), *slot < slots.len()) else {
                    continue;
                };
                let before = slots[*slot].clone();
                if *kind == "spin" {
                    let mut scratch = before.clone();
                    if let Err(p) = catch(|| {
                        for _ in 0..SPIN {
                            l.obj.update(&mut scratch, *t);
                        }
                    }) {
                        bail_panic!(p, step, format!("update at t={t:?} (repeated)"));
                    }
                    out.count("probe.long_played_object_queried");
                }
                let mut target = before.clone();
                if let Err(p) = catch(|| l.obj.update(&mut target, *t)) {
                    bail_panic!(p, step, format!("update at t={t:?}"));
                }
                slots[*slot] = target.clone();
                hash_vals(&mut h, &target);
                out.evaluations += 1;
                let spec = &scn.pool[l.spec];
                let merged = spec.as_merged();
                if property == "C20" {
                    out.triggered = true;
                    out.distinct.insert(hash_words(&[
                        simkit::rng::fnv1a(kind.as_bytes()),
                        oracle::merged_phase(Some(&merged), *t as f64) as u64,
                        merged.parts.len() as u64,
                    ]));
                    if !(target.a.is_finite() && target.b.is_finite()) {
                        // only a violation if what we wrote into was finite and so are the inputs
                        out.violation = Some(viol(
                            "C20",
                            "non-finite-value",
                            step,
                            format!("update at t={t:?} produced {}", vals_brief(&target)),
                            format!("kind={kind}"),
                        ));
                    }
                    let m = match catch(|| l.obj.meta()) {
                        Ok(m) => m,
                        Err(p) => bail_panic!(p, step, "metadata"),
                    };
                    h.f32(m.0);
                    h.f32(m.1);
                    let infinite = oracle::merged_total(&merged).is_none();
                    if !(m.1.is_finite() || (infinite && m.1 == f32::INFINITY)) || !m.0.is_finite() {
                        out.violation = Some(viol(
                            "C20",
                            "non-finite-duration",
                            step,
                            format!("delay/duration = {:?}/{:?} for a finite configuration", m.0, m.1),
                            "duration".into(),
                        ));
                    }
                } else {
                    // expected: a fresh timeline, evaluated once into a fresh default target, with
                    // whatever per-thread state the library may keep put back to the state every
                    // run starts from - so the comparison is "this history" against "no history",
                    // not against "the same history, one call later"
                    let expected = catch(|| {
                        simmodel::normalise_hidden_state();
                        let mut fresh = Obj::build(spec);
                        if let Some(v) = &l.last_start {
                            fresh.start_with(v);
                        }
                        let mut tv = Vals::default();
                        fresh.update(&mut tv, *t);
                        (tv, fresh.meta())
                    });
                    let (exp, fresh_meta) = match expected {
                        Ok(e) => e,
                        Err(p) => bail_panic!(p, step, "fresh timeline"),
                    };
                    let nontrivial = step > 0;
                    if nontrivial {
                        out.triggered = true;
                        out.distinct.insert(hash_words(&[
                            simkit::rng::fnv1a(kind.as_bytes()),
                            oracle::merged_phase(Some(&merged), *t as f64) as u64,
                            l.last_start.is_some() as u64,
                            (*obj >= scn.pool.len()) as u64,
                            merged.parts.len() as u64,
                        ]));
                    }
                    if *obj >= scn.pool.len() {
                        out.count("probe.update_on_clone");
                    }
                    if l.last_start.is_some() {
                        out.count("probe.update_after_start_with");
                    }
                    for prop in 0..4 {
                        let got = oracle::get_prop(&target, prop);
                        if merged.keyframes_prop(prop) {
                            let want = oracle::get_prop(&exp, prop);
                            // bit for bit: the same computation on the same inputs - the sign of a
                            // zero included, which `==` cannot see
                            let same = match (got, want) {
                                (PropVal::F(x), PropVal::F(y)) => x.to_bits() == y.to_bits(),
                                (x, y) => x == y,
                            };
                            if !same {
                                out.violation = Some(viol(
                                    "C09",
                                    "result-depends-on-history",
                                    step,
                                    format!(
                                        "object {obj} ({kind}) at t={t:?} wrote {}={got:?} into a used target; a fresh timeline from the same specification (start values {}) evaluated once gives {want:?}",
                                        PROP_NAMES[prop],
                                        l.last_start.as_ref().map(vals_brief).unwrap_or_else(|| "none".into())
                                    ),
                                    format!("kind={kind} prop={}", PROP_NAMES[prop]),
                                ));
                                break;
                            }
                        } else {
                            let was = oracle::get_prop(&before, prop);
                            let same = match (got, was) {
                                (PropVal::F(x), PropVal::F(y)) => x.to_bits() == y.to_bits(),
                                (x, y) => x == y,
                            };
                            if !same {
                                out.violation = Some(viol(
                                    "C09",
                                    "unanimated-target-content-changed",
                                    step,
                                    format!("object {obj} at t={t:?} changed un-animated {} from {was:?} to {got:?}", PROP_NAMES[prop]),
                                    format!("prop={}", PROP_NAMES[prop]),
                                ));
                                break;
                            }
                        }
                    }
                    if out.violation.is_none() && target.tag != before.tag {
                        out.violation = Some(viol(
                            "C09",
                            "unanimated-target-content-changed",
                            step,
                            "excluded field changed".into(),
                            "tag".into(),
                        ));
                    }
                    // metadata unchanged by evaluation, equal to a fresh instance
                    let m = match catch(|| l.obj.meta()) {
                        Ok(m) => m,
                        Err(p) => bail_panic!(p, step, "metadata"),
                    };
                    if out.violation.is_none() && (!meta_eq(&m, &l.meta) || !meta_eq(&m, &fresh_meta)) {
                        out.violation = Some(viol(
                            "C09",
                            "metadata-changed",
                            step,
                            format!("metadata now {:?}, at creation {:?}, fresh instance {:?}", m, l.meta, fresh_meta),
                            "meta".into(),
                        ));
                    }
                }
            }
        }
        if out.violation.is_some() {
            break;
        }
    }
    if property == "C09" && out.violation.is_none() {
        let times: Vec<f32> = scn
            .ops
            .iter()
            .filter_map(|(op, _)| match op {
                TOp::Update { t, .. } if t.is_finite() => Some(*t % 8.0),
                _ => None,
            })
            .take(12)
            .collect();
        out.evaluations += times.len() as u64;
        out.count("probe.hygiene_struct_evaluated");
        match catch(|| hygiene_probe(&times, scn.ops.len() as u64)) {
            Ok(None) => {}
            Ok(Some(d)) => {
                out.violation = Some(viol("C09", "result-depends-on-target-contents", scn.ops.len(), d, "hygiene".into()));
            }
            Err(p) => {
                out.violation = Some(viol(
                    "C09",
                    &format!("panic@{}:{}", p.file, p.line),
                    scn.ops.len(),
                    format!("hygiene struct panicked: {}", p.describe()),
                    "panic hygiene".into(),
                ));
            }
        }
    }
    out.obs_hash = h.0;
    out
}

fn shrink_candidates(s: &Scn) -> Vec<Scn> {
    let mut out = Vec::new();
    let n = s.ops.len();
    let mut len = n / 2;
    while len >= 1 {
        let mut start = 0;
        while start + len <= n {
            let mut c = s.clone();
            c.ops.drain(start..start + len);
            // dropping a Clone shifts object indices: keep candidates index-consistent by only
            // removing chunks without Clone ops unless they are at the tail
            let removed_clone = s.ops[start..start + len]
                .iter()
                .any(|(o, _)| matches!(o, TOp::Clone { .. }));
            if !c.ops.is_empty() && !removed_clone {
                out.push(c);
            }
            start += len;
        }
        len /= 2;
    }
    // simplify specs
    for (i, spec) in s.pool.iter().enumerate() {
        let m = spec.as_merged();
        if m.parts.len() > 1 {
            for p in 0..m.parts.len() {
                let mut mm = m.clone();
                mm.parts.remove(p);
                let mut c = s.clone();
                c.pool[i] = ObjSpec::Merged(mm);
                out.push(c);
            }
        }
        for (pi, part) in m.parts.iter().enumerate() {
            let mut push = |f: &dyn Fn(&mut TlSpec)| {
                let mut mm = m.clone();
                f(&mut mm.parts[pi]);
                let mut c = s.clone();
                c.pool[i] = match spec {
                    ObjSpec::Single(_) => ObjSpec::Single(mm.parts[0].clone()),
                    ObjSpec::Merged(_) => ObjSpec::Merged(mm),
                };
                if c != *s {
                    out.push(c);
                }
            };
            if part.kfs.len() > 48 {
                let n_k = part.kfs.len();
                let mut len = n_k / 2;
                while len >= (n_k / 16).max(1) {
                    let mut start = 0;
                    while start + len <= n_k {
                        push(&|t| {
                            t.kfs.drain(start..start + len);
                        });
                        start += len;
                    }
                    len /= 2;
                }
            } else {
                for ki in 0..part.kfs.len() {
                    push(&|t| {
                        t.kfs.remove(ki);
                    });
                }
            }
            push(&|t| t.easing = 0);
            push(&|t| t.delay = 0.0);
            push(&|t| t.repeat = Rep::None);
            push(&|t| t.reverse = false);
            push(&|t| t.duration = 1.0);
            push(&|t| t.kfs.sort_by(|a, b| a.pos.total_cmp(&b.pos)));
            for ki in 0..part.kfs.len().min(12) {
                push(&|t| t.kfs[ki].easing = None);
                push(&|t| t.kfs[ki].via_from = false);
            }
        }
    }
    // simplify times
    for i in 0..n {
        if let (TOp::Update { obj, slot, t }, k) = &s.ops[i] {
            for cand in [0.0f32, 0.5, 1.0, t.round()] {
                if cand != *t && cand.is_finite() {
                    let mut c = s.clone();
                    c.ops[i] = (
                        TOp::Update {
                            obj: *obj,
                            slot: *slot,
                            t: cand,
                        },
                        k,
                    );
                    out.push(c);
                }
            }
        }
    }
    out.retain(|c| c.pool.iter().all(|o| simmodel::gen::merged_is_in_domain(&o.as_merged())));
    out
}

struct TimelineEngine;

impl Engine for TimelineEngine {
    type Scn = Scn;
    fn name(&self) -> &'static str {
        "timeline_sim"
    }
    fn properties(&self) -> &'static [&'static str] {
        &["C09", "C20"]
    }
    fn generate(&self, rng: &mut Rng, property: &str, tier: Tier) -> Scn {
        generate(rng, property, tier == Tier::Thorough)
    }
    fn execute(&self, scn: &Scn, property: &str) -> RunOutcome {
        execute(scn, property)
    }
    fn shrink_candidates(&self, scn: &Scn) -> Vec<Scn> {
        shrink_candidates(scn)
    }
    fn size(&self, s: &Scn) -> usize {
        s.ops.len() * 3
            + s.pool
                .iter()
                .map(|o| {
                    let m = o.as_merged();
                    2 + m
                        .parts
                        .iter()
                        .map(|p| {
                            3 + p.kfs.len() * 2
                                + (p.delay != 0.0) as usize
                                + (p.repeat != Rep::None) as usize
                                + p.reverse as usize
                                + (p.easing != 0) as usize
                                + p.kfs.iter().filter(|k| k.easing.is_some()).count()
                                + (!p.kfs.windows(2).all(|w| w[0].pos <= w[1].pos)) as usize
                        })
                        .sum::<usize>()
                })
                .sum::<usize>()
    }
    fn to_json(&self, s: &Scn) -> Json {
        scn_to_json(s)
    }
    fn from_json(&self, j: &Json) -> Result<Scn, String> {
        scn_from_json(j)
    }
    fn components_real(&self) -> Vec<&'static str> {
        vec![
            "derive(Animate)-generated ValsTimeline (update, start_with, clone, metadata)",
            "mina_core::timeline::MergedTimeline",
            "mina_core::timeline_helpers::SubTimeline, time_scale, easing, interpolation",
        ]
    }
    fn components_simulated(&self) -> Vec<&'static str> {
        vec![
            "the caller: query schedule (times, order, target slots), start_with / clone / drop events",
        ]
    }
    fn rule(&self, property: &str) -> String {
        if property == "C20" {
            "Each run builds 1-3 timelines (single or merged) with extreme-but-finite configurations and evaluates them at a seeded schedule of times including boundaries +-1 ulp, far beyond the end and astronomical times, under catch_unwind with finiteness checks; distinct = (schedule kind, phase, merged size) tuples".into()
        } else {
            "Each run builds a pool of 1-3 long-lived timelines (single or merged), 1-3 dirty target slots and a schedule of <=40 operations (update at scrubbed/random/repeated/boundary times, start_with, clone, drop, re-dirty); evaluation = one update compared with a fresh timeline from the same specification evaluated once into a fresh target; non-trivial = any update that is not the first operation on the pool; distinct = (schedule kind, phase, start_with applied?, object is a clone?, merged size) tuples".into()
        }
    }
    fn default_runs(&self, _property: &str, tier: Tier) -> u64 {
        match tier {
            Tier::Quick => 400_000,
            Tier::Thorough => 16_000_000,
        }
    }
}

fn main() {
    std::process::exit(main_cli(&TimelineEngine));
}
