//! bevy_sim: deterministic simulation of the real Bevy plugin (`AnimationPlugin`, `Animator`,
//! `AnimationSelector`, `AnimationChain`) inside a real `App` with a hand-driven `Time`, single
//! threaded executors and seeded system-order variants. Decides C18 and C19 (and the Bevy
//! surface of C08 / C20).

mod gen;
mod world;

#[allow(unused_imports)]
use bevy::prelude::*;
use bevy_mina::prelude::*;
use mina::prelude::*;
use simkit::driver::{main_cli, Engine, RunOutcome, Tier, Violation};
use simkit::json::Json;
use simkit::panic::catch;
use simkit::rng::Rng;
use simkit::{hash_words, ObsHash};
use simmodel::oracle::{self, PropVal};
use simmodel::*;
use std::time::Duration;
use world::*;

/// Frames allowed between a cause and its effect where the plugin's system order is open.
const LATENCY: usize = 3;

fn rank(s: AnimationState) -> u8 {
    match s {
        AnimationState::None => 0,
        AnimationState::Waiting => 1,
        AnimationState::Playing => 2,
        AnimationState::Ended => 3,
    }
}

struct Snap {
    state: AnimationState,
    pos: Duration,
    enabled: bool,
    comp: Target,
    key: Option<Key>,
    acted: Option<Key>,
    other: Option<(AnimationState, Duration, f32)>,
    bystander: Target,
    bystander_v: f32,
    extra: Option<(AnimationState, Duration, Option<Target>)>,
    /// bevy's change-detection ticks of the animator and of the target component: they move
    /// whenever something obtains mutable access, whether or not a value changes
    animator_tick: Option<bevy::ecs::component::Tick>,
    target_tick: Option<bevy::ecs::component::Tick>,
}

fn snap(w: &SimWorld) -> Snap {
    snap_of(w, w.entity)
}

fn snap_of(w: &SimWorld, entity: Entity) -> Snap {
    let e = w.app.world.entity(entity);
    let an = e.get::<Animator<Target>>().expect("animator");
    let sel = e.get::<AnimationSelector<Key, Target>>();
    let other = e.get::<Animator<Other>>().map(|a| {
        (
            a.state(),
            a.timeline_position,
            e.get::<Other>().map(|o| o.x).unwrap_or(f32::NAN),
        )
    });
    let b = w.app.world.entity(w.bystander);
    Snap {
        state: an.state(),
        pos: an.timeline_position,
        enabled: an.enabled,
        comp: e.get::<Target>().expect("target").clone(),
        key: sel.map(|s| s.timeline_key),
        acted: sel.and_then(|s| s.verif_acted_key().copied()),
        other,
        bystander: b.get::<Target>().unwrap().clone(),
        bystander_v: b.get::<Bystander>().unwrap().v,
        animator_tick: e.get_change_ticks::<Animator<Target>>().map(|t| t.last_changed_tick()),
        target_tick: e.get_change_ticks::<Target>().map(|t| t.last_changed_tick()),
        extra: w.extra.map(|x| {
            let e = w.app.world.entity(x);
            let an = e.get::<Animator<Target>>().unwrap();
            (an.state(), an.timeline_position, e.get::<Target>().cloned())
        }),
    }
}

/// The crowd of identically configured plain animated entities: (state, position, component) each.
fn crowd_snap(w: &SimWorld) -> Vec<(AnimationState, Duration, Target)> {
    w.crowd
        .iter()
        .map(|x| {
            let e = w.app.world.entity(*x);
            let an = e.get::<Animator<Target>>().expect("crowd animator");
            (an.state(), an.timeline_position, e.get::<Target>().expect("crowd target").clone())
        })
        .collect()
}

/// The lone animator of the second component type: (state, position, component value if any).
type LoneSnap = (AnimationState, Duration, Option<f32>);

fn lone_snap(w: &SimWorld) -> Option<LoneSnap> {
    w.lone_other.map(|x| {
        let e = w.app.world.entity(x);
        let an = e.get::<Animator<Other>>().expect("lone animator");
        (an.state(), an.timeline_position, e.get::<Other>().map(|o| o.x))
    })
}

/// The entity whose animator arrives late: (animator state and position if it is there yet,
/// component, selector key).
type LateSnap = (Option<(AnimationState, Duration)>, Target, Option<Key>);

fn late_snap(w: &SimWorld) -> Option<LateSnap> {
    w.late_animator.map(|x| {
        let e = w.app.world.entity(x);
        (
            e.get::<Animator<Target>>().map(|a| (a.state(), a.timeline_position)),
            e.get::<Target>().expect("target").clone(),
            e.get::<AnimationSelector<Key, Target>>().map(|s| s.timeline_key),
        )
    })
}

fn hash_snap(h: &mut ObsHash, s: &Snap) {
    h.u32(rank(s.state) as u32);
    h.u64(s.pos.as_secs());
    h.u32(s.pos.subsec_nanos());
    h.bool(s.enabled);
    h.f32(s.comp.a);
    h.f32(s.comp.b);
    h.u32(s.comp.n as u32);
    h.u32(s.comp.k as u32);
    h.u32(s.comp.extra);
    h.f32(s.comp.extra_f);
    h.u32(s.key.map(|k| k as u32).unwrap_or(999));
    h.u32(s.acted.map(|k| k as u32).unwrap_or(999));
    if let Some((st, p, x)) = s.other {
        h.u32(rank(st) as u32);
        h.u64(p.as_nanos() as u64);
        h.f32(x);
    }
    if let Some((st, p, Some(c))) = &s.extra {
        h.u32(rank(*st) as u32 + 50);
        h.u64(p.as_nanos() as u64);
        h.f32(c.a);
        h.f32(c.b);
        h.u32(c.n as u32);
        h.u32(c.k as u32);
    }
}

/// Twin of the animator's current timeline, built from the specification.
struct Twin {
    tl_index: usize,
    tl: MergedTimeline<TargetTimeline>,
    /// the values the timeline was started from (None = never substituted)
    start: Option<Vals>,
}

impl Twin {
    fn new(cfg: &Cfg, tl_index: usize, start: Option<&Target>) -> Twin {
        let mut tl = build_target_merged(&cfg.tls[tl_index]);
        if let Some(s) = start {
            tl.start_with(s);
        }
        Twin {
            tl_index,
            tl,
            start: start.map(vals_of),
        }
    }

    /// Independent check against the documented timeline semantics (reference evaluator in
    /// simmodel::oracle): every keyed property of `comp` must match the reference at one of the
    /// candidate positions. Returns a description of the first property that matches none.
    fn reference_mismatch(&self, cfg: &Cfg, comp: &Target, candidates: &[Duration]) -> Option<String> {
        let m = &cfg.tls[self.tl_index];
        let v = vals_of(comp);
        for prop in 0..4 {
            if !m.keyframes_prop(prop) {
                continue;
            }
            let actual = oracle::get_prop(&v, prop);
            let mut ok = false;
            let mut refs = Vec::new();
            for pos in candidates {
                let t = pos.as_secs_f64() as f32;
                if !(t < 1.0e6) {
                    ok = true;
                    break;
                }
                if let Some(rp) = &oracle::ref_eval(m, self.start.as_ref(), t)[prop] {
                    if rp.near_boundary || oracle::ref_matches(actual, rp, 1e-4) {
                        ok = true;
                        break;
                    }
                    refs.push(rp.value);
                }
            }
            // (a step function as easing is discontinuous: the value may be the reference a few
            // ulps of the time to either side - see core_sim's reference_mismatch)
            if !ok && m.parts.iter().any(|p| p.uses_easing(CUSTOM_STEPS)) {
                'outer: for pos in candidates {
                    let t = pos.as_secs_f64() as f32;
                    for k in [1u32, 2, 4, 8] {
                        for t2 in [f32::from_bits(t.to_bits().saturating_sub(k)), f32::from_bits(t.to_bits() + k)] {
                            if t2.is_finite() && t2 >= 0.0 {
                                if let Some(rp) = &oracle::ref_eval(m, self.start.as_ref(), t2)[prop] {
                                    if rp.near_boundary || oracle::ref_matches(actual, rp, 1e-4) {
                                        ok = true;
                                        break 'outer;
                                    }
                                }
                            }
                        }
                    }
                }
            }
            if !ok {
                return Some(format!(
                    "{} is {actual:?}; the documented timeline semantics give {refs:?} at positions {candidates:?} (started from {})",
                    PROP_NAMES[prop],
                    self.start.as_ref().map(vals_brief).unwrap_or_else(|| "the timeline's own 0% values".into())
                ));
            }
        }
        None
    }
    fn eval(&self, into: &Target, pos: Duration) -> Target {
        let mut t = into.clone();
        self.tl.update(&mut t, pos.as_secs_f64() as f32);
        t
    }
}

fn keyed_equal(spec: &MergedSpec, x: &Target, y: &Target) -> bool {
    let (vx, vy) = (vals_of(x), vals_of(y));
    for prop in 0..4 {
        if spec.keyframes_prop(prop) {
            let same = match (oracle::get_prop(&vx, prop), oracle::get_prop(&vy, prop)) {
                (PropVal::F(a), PropVal::F(b)) => a == b,
                (a, b) => a == b,
            };
            if !same {
                return false;
            }
        }
    }
    true
}

fn unkeyed_changed(spec: Option<&MergedSpec>, before: &Target, after: &Target) -> Option<&'static str> {
    if before.extra != after.extra {
        return Some("extra");
    }
    if before.extra_f.to_bits() != after.extra_f.to_bits() {
        return Some("extra_f");
    }
    let (vb, va) = (vals_of(before), vals_of(after));
    for prop in 0..4 {
        let keyed = spec.map(|m| m.keyframes_prop(prop)).unwrap_or(false);
        if !keyed {
            let same = match (oracle::get_prop(&vb, prop), oracle::get_prop(&va, prop)) {
                (PropVal::F(a), PropVal::F(b)) => a.to_bits() == b.to_bits(),
                (a, b) => a == b,
            };
            if !same {
                return Some(PROP_NAMES[prop]);
            }
        }
    }
    None
}

fn tbrief(t: &Target) -> String {
    format!("{{a:{:?}, b:{:?}, n:{}, k:{}}}", t.a, t.b, t.n, t.k)
}

fn viol(property: &str, clause: &str, step: usize, detail: String, signature: String) -> Violation {
    Violation {
        property: property.into(),
        clause: clause.into(),
        step,
        detail,
        signature,
    }
}

fn delta_class(d: Duration, remaining: Option<f64>, whole: Option<f64>) -> u64 {
    let s = d.as_secs_f64();
    if s == 0.0 {
        0
    } else if s < 0.01 {
        1
    } else if whole.map(|w| s > w).unwrap_or(false) {
        4
    } else if remaining.map(|r| s > r).unwrap_or(false) {
        3
    } else {
        2
    }
}

struct Pending {
    from: Key,
    to: Key,
    deadline: usize,
}

/// The order constraints the plugin declares itself (chain and select before animate) are part
/// of what makes a key change take effect in the frame it is seen. The simulator pins a total
/// order per run, which would *mask* a registration that no longer declares them - so the
/// declared order is read back from bevy's own schedule graph once per process.
fn declared_order_violation() -> Option<String> {
    use std::sync::OnceLock;
    static REPORT: OnceLock<Option<String>> = OnceLock::new();
    REPORT
        .get_or_init(|| {
            let r = declared_order_report();
            let pairs = r.get("pairs_bevy_reports_as_unordered_and_conflicting")?.as_arr().ok()?;
            for p in pairs {
                let text = p.as_str().ok()?;
                if text == "animate <-> chain" || text == "animate <-> select" {
                    return Some(format!(
                        "the plugin's own registration leaves `{text}` unordered (bevy reports the pair as conflicting without an order); register_animation_key is documented to run both before the animation system"
                    ));
                }
            }
            None
        })
        .clone()
}

fn execute(scn: &BScn, property: &str) -> RunOutcome {
    simmodel::normalise_hidden_state();
    if property == "C19" && scn.cfg.selector {
        if let Some(d) = declared_order_violation() {
            let mut out = RunOutcome::default();
            out.violation = Some(viol("C19", "declared-system-order-lost", 0, d, "declared-order".into()));
            return out;
        }
    }
    let mut out = RunOutcome::default();
    let mut h = ObsHash::default();
    let cfg = &scn.cfg;
    macro_rules! bail_panic {
        ($p:expr, $step:expr, $what:expr) => {{
            let p = $p;
            h.str("panic");
            h.str(&p.message);
            out.obs_hash = h.0;
            out.violation = Some(viol(
                property,
                &format!("panic@{}:{}", p.file, p.line),
                $step,
                format!("{} panicked: {}", $what, p.describe()),
                "panic".into(),
            ));
            return out;
        }};
    }
    let mut w = match catch(|| build_world(cfg)) {
        Ok(w) => w,
        Err(p) => bail_panic!(p, 0, "building the app"),
    };

    // An Animator as its constructors make it (`new`, `default`, `with_timeline` - whichever the
    // configuration used): enabled unless the configuration disabled it, at position zero, in
    // state None. (The oracle below reads `enabled` from the component, because the operator may
    // assign it; what the constructors set is stated here.)
    {
        let s0 = snap(&w);
        if s0.enabled == cfg.start_disabled || s0.pos != Duration::ZERO || s0.state != AnimationState::None {
            out.violation = Some(viol(
                property,
                "freshly-built-animator",
                0,
                format!(
                    "a freshly built Animator is enabled={} at {:?} in state {:?}; expected enabled={} at 0 in state None",
                    s0.enabled, s0.pos, s0.state, !cfg.start_disabled
                ),
                "constructor".into(),
            ));
            return out;
        }
    }

    // ---- model state --------------------------------------------------------------------------
    let initial_comp = target_of(&cfg.initial);
    let mut twin: Option<Twin> = if cfg.selector && !cfg.selector_animator_prebuilt {
        None // the selector hands over a timeline in the first frame
    } else {
        cfg.initial_tl.map(|i| {
            Twin::new(
                cfg,
                i,
                if cfg.initial_start_with {
                    Some(&initial_comp)
                } else {
                    None
                },
            )
        })
    };
    let mut extra_twin: Option<Twin> = cfg.extra_entity.map(|(tl, _)| Twin::new(cfg, tl, None));
    let mut crowd_twin: Option<Twin> = None;
    let mut pending: Option<Pending> = None;
    let mut user_changed_since_end = false;
    let mut unacted_frames = 0usize;
    let mut key_stable_frames = 0usize;
    // Ended events since the last reset / re-target ("exactly one Ended per run")
    let mut ended_events_in_run = 0u32;
    // set_timeline without reset while Ended: the animator keeps reporting Ended for a timeline it
    // never played; excluded from the Ended clauses until the next reset / re-target
    let mut stale_ended = false;
    let mut chain_present = true;
    // a key change made by the user that the selector has not acted on yet: (key, deadline)
    let mut awaiting_user_key: Option<(Key, usize)> = None;
    // an Ended event naming the main entity was sent in the previous frame
    let mut ended_event_in_previous_frame = false;
    // ... and the main (governed) animator itself turned Ended in the previous frame
    let mut main_ended_in_previous_frame = false;
    // the selector's `timelines` map as edited at run time (key -> index into cfg.tls)
    let mut keys_now: Vec<Option<usize>> = cfg.keys.clone();
    // the entry of the key in effect was edited after that key was acted on: the animator keeps
    // playing what it was given, so "the key's timeline is in effect" is not claimed until the
    // next re-target
    let mut current_key_entry_edited = false;
    // side entities
    let lone_twin = cfg.lone_other.as_ref().map(|l| build_other_tl(&l.spec));
    let mut lone_had_component_when_it_ended = false;
    let mut late_twin: Option<Twin> = None;
    let mut late_adopted = false;
    let chain_lookup = |k: Key| -> Option<Key> {
        cfg.chain
            .as_ref()
            .and_then(|pairs| pairs.iter().rev().find(|(f, _)| *f == k).map(|(_, t)| *t))
    };
    let check18 = property == "C18";
    let check19 = property == "C19";
    let check08 = property == "C08";
    let check20 = property == "C20";

    for (fi, frame) in scn.frames.iter().enumerate() {
        out.steps += 1;
        out.count(&format!("fault_fired.{}", frame.fault));
        // ---- operator / user ops before the frame ---------------------------------------------
        let mut user_set_key = false;
        let mut user_changed_key = false;
        let mut swapped_while_ended = stale_ended;
        let key_before_ops = w
            .app
            .world
            .entity(w.entity)
            .get::<AnimationSelector<Key, Target>>()
            .map(|s| s.timeline_key);
        // unit for seek operations: the total of the timeline the model believes is installed
        let seek_unit: Option<f64> = twin.as_ref().map(|t| {
            let m = &cfg.tls[t.tl_index];
            match oracle::merged_total(m) {
                Some(t) => t,
                None => m.parts.iter().map(|p| p.delay as f64 + p.duration as f64).fold(0.0, f64::max),
            }
        });
        for op in &frame.ops {
            let key_before_this_op = w
                .app
                .world
                .entity(w.entity)
                .get::<AnimationSelector<Key, Target>>()
                .map(|s| s.timeline_key);
            let selector_was_present = key_before_this_op.is_some();
            let acted_before_this_op = w
                .app
                .world
                .entity(w.entity)
                .get::<AnimationSelector<Key, Target>>()
                .and_then(|s| s.verif_acted_key().copied());
            let targets: Vec<Entity> = std::iter::once(w.entity).chain(w.mirror).collect();
            // what the operation itself may and may not change (documented on the methods and
            // fields): state and position of the main animator before it ...
            let before_op = {
                let e = w.app.world.entity(w.entity);
                let a = e.get::<Animator<Target>>().expect("animator");
                (a.state(), a.timeline_position, a.enabled)
            };
            let r = catch(|| {
              for target_entity in &targets {
                let mut e = w.app.world.entity_mut(*target_entity);
                match op {
                    BOp::SetKey(k) => {
                        if let Some(mut sel) = e.get_mut::<AnimationSelector<Key, Target>>() {
                            sel.timeline_key = *k;
                        }
                    }
                    BOp::Enable(b) => {
                        e.get_mut::<Animator<Target>>().unwrap().enabled = *b;
                    }
                    BOp::Reset => {
                        e.get_mut::<Animator<Target>>().unwrap().reset();
                    }
                    BOp::PauseTime(_) | BOp::TimeSpeed(_) | BOp::SpawnExtra | BOp::DespawnExtra => {}
                    BOp::ExtraRemoveTarget | BOp::ExtraInsertTarget | BOp::ExtraReplaceAnimator(_) => {}
                    BOp::RemoveChain => {
                        e.remove::<AnimationChain<Key>>();
                    }
                    BOp::InsertChain => {
                        if e.get::<AnimationSelector<Key, Target>>().is_some() {
                            insert_chain(cfg, &mut e);
                        }
                    }
                    BOp::InsertSelector => {
                        if e.get::<AnimationSelector<Key, Target>>().is_none() {
                            insert_selector(cfg, &mut e);
                        }
                    }
                    BOp::RemoveSelector => {
                        e.remove::<AnimationSelector<Key, Target>>();
                    }
                    BOp::Seek { eighths_of_total, astronomical } => {
                        let to = match astronomical {
                            1 => Duration::MAX,
                            2 => Duration::MAX - Duration::from_nanos(1),
                            3 => Duration::MAX - Duration::from_millis(50),
                            4 => Duration::from_secs(1_000_000_000_000_000),
                            _ => {
                                let unit = seek_unit.unwrap_or(1.0);
                                Duration::from_secs_f64((unit * *eighths_of_total as f64 / 8.0).min(1.0e12))
                            }
                        };
                        e.get_mut::<Animator<Target>>().unwrap().timeline_position = to;
                    }
                    BOp::EditTimelines { key, tl } => {
                        if let Some(mut sel) = e.get_mut::<AnimationSelector<Key, Target>>() {
                            match tl {
                                Some(i) => {
                                    sel.timelines.insert(*key, Box::new(build_target_merged(&cfg.tls[*i])));
                                }
                                None => {
                                    sel.timelines.remove(key);
                                }
                            }
                        }
                    }
                    BOp::SetTimeline { tl, reset, start_with } => {
                        let comp = e.get::<Target>().unwrap().clone();
                        let mut t = build_target_merged(&cfg.tls[*tl]);
                        if *start_with {
                            t.start_with(&comp);
                        }
                        let mut an = e.get_mut::<Animator<Target>>().unwrap();
                        an.set_timeline(t);
                        if *reset {
                            an.reset();
                        }
                    }
                }
              }
            });
            if let Err(p) = r {
                bail_panic!(p, fi, format!("{op:?}"));
            }
            // ... and after it
            if check18 || check19 {
                let e = w.app.world.entity(w.entity);
                let a = e.get::<Animator<Target>>().expect("animator");
                let after_op = (a.state(), a.timeline_position, a.enabled);
                let complaint = match op {
                    // "changing the timeline will **not** reset the animation state"
                    BOp::SetTimeline { reset: false, .. } if after_op != before_op => Some("set_timeline"),
                    // "setting this property does not change the state"
                    BOp::Enable(_) if (after_op.0, after_op.1) != (before_op.0, before_op.1) => Some("assigning `enabled`"),
                    // "it will not change the animator's state"
                    BOp::Seek { .. } if (after_op.0, after_op.2) != (before_op.0, before_op.2) => Some("assigning `timeline_position`"),
                    BOp::Reset | BOp::SetTimeline { reset: true, .. }
                        if (after_op.0, after_op.1, after_op.2) != (AnimationState::None, Duration::ZERO, before_op.2) =>
                    {
                        Some("reset()")
                    }
                    _ => None,
                };
                if let Some(what) = complaint {
                    out.violation = Some(viol(
                        if check18 { "C18" } else { "C19" },
                        "operation-changed-more-than-documented",
                        fi,
                        format!("frame {fi}: {what} took the animator from (state, position, enabled) = {before_op:?} to {after_op:?}"),
                        format!("op {op:?}"),
                    ));
                    break;
                }
            }
            if matches!(op, BOp::PauseTime(_) | BOp::TimeSpeed(_)) {
                w.apply_time_op(op);
                out.count("op.app_clock_pause_or_speed");
            }
            match op {
                BOp::SpawnExtra => {
                    if w.extra.is_none() {
                        w.extra = spawn_extra_entity(cfg, &mut w.app);
                        out.count("op.extra_entity_spawned_late");
                    }
                }
                BOp::ExtraRemoveTarget => {
                    if let Some(x) = w.extra {
                        w.app.world.entity_mut(x).remove::<Target>();
                        out.count("op.extra_entity_component_removed");
                    }
                }
                BOp::ExtraInsertTarget => {
                    if let Some(x) = w.extra {
                        if w.app.world.entity(x).get::<Target>().is_none() {
                            w.app.world.entity_mut(x).insert(target_of(&cfg.initial));
                            out.count("op.extra_entity_component_reinserted");
                        }
                    }
                }
                BOp::ExtraReplaceAnimator(tl) => {
                    if let Some(x) = w.extra {
                        w.app
                            .world
                            .entity_mut(x)
                            .insert(Animator::<Target>::with_timeline(build_target_merged(&cfg.tls[*tl])));
                        extra_twin = Some(Twin::new(cfg, *tl, None));
                        out.count("op.extra_entity_animator_replaced");
                    }
                }
                BOp::DespawnExtra => {
                    if let Some(x) = w.extra.take() {
                        w.app.world.despawn(x);
                        out.count("op.extra_entity_despawned");
                    }
                }
                BOp::RemoveChain => {
                    chain_present = false;
                    pending = None;
                    out.count("op.chain_removed");
                }
                BOp::InsertChain => {
                    chain_present = true;
                    out.count("op.chain_inserted");
                }
                _ => {}
            }
            match op {
                BOp::PauseTime(_) | BOp::TimeSpeed(_) | BOp::SpawnExtra | BOp::DespawnExtra | BOp::RemoveChain | BOp::InsertChain => {}
                BOp::ExtraRemoveTarget | BOp::ExtraInsertTarget | BOp::ExtraReplaceAnimator(_) => {}
                BOp::Seek { astronomical, .. } => {
                    out.count(if *astronomical > 0 { "op.seek_astronomical" } else { "op.seek" });
                }
                BOp::InsertSelector => {
                    if !selector_was_present {
                        out.count("op.selector_inserted_later");
                        // a fresh selector built from the configuration, chain included
                        keys_now = cfg.keys.clone();
                        chain_present = true;
                    }
                }
                BOp::RemoveSelector => {
                    if selector_was_present {
                        out.count("op.selector_removed");
                        pending = None;
                    }
                }
                BOp::EditTimelines { key, tl } => {
                    if selector_was_present {
                        out.count("op.selector_timelines_edited");
                        if let Some(slot) = keys_now.get_mut(*key as usize) {
                            *slot = *tl;
                        }
                        // (the key in effect is the one the selector last acted on; the selector's
                        // key may have been moved away and back without ever being acted on)
                        if key_before_this_op == Some(*key) || acted_before_this_op == Some(*key) {
                            out.count("probe.timeline_of_the_current_key_edited");
                            current_key_entry_edited = true;
                        }
                    }
                }
                BOp::SetKey(k) => {
                    user_set_key = true;
                    out.count("op.set_key");
                    if Some(*k) != key_before_ops || user_changed_key {
                        // (a burst may change the key and change it back; any real change counts)
                    }
                    let _ = k;
                }
                BOp::Enable(_) => out.count("op.enable_toggle"),
                BOp::Reset => {
                    out.count("op.reset");
                    ended_events_in_run = 0;
                    swapped_while_ended = false;
                }
                BOp::SetTimeline { tl, reset, start_with } => {
                    out.count("op.set_timeline");
                    let comp = w.app.world.entity(w.entity).get::<Target>().unwrap().clone();
                    let st = w
                        .app
                        .world
                        .entity(w.entity)
                        .get::<Animator<Target>>()
                        .unwrap()
                        .state();
                    if st == AnimationState::Ended && !*reset {
                        swapped_while_ended = true;
                    }
                    if *reset {
                        swapped_while_ended = false;
                    }
                    twin = Some(Twin::new(cfg, *tl, if *start_with { Some(&comp) } else { None }));
                    if *reset {
                        ended_events_in_run = 0;
                    }
                }
            }
        }
        if out.violation.is_some() {
            break;
        }
        stale_ended = swapped_while_ended;
        // ---- side entities: their own assembly schedule ----------------------------------------
        let animator_touched_by_op = frame.ops.iter().any(|op| {
            matches!(op, BOp::Enable(_) | BOp::Reset | BOp::SetTimeline { .. } | BOp::Seek { .. })
        });
        let mut late_touched = false;
        {
            let r = catch(|| {
                if let (Some(l), Some(x)) = (&cfg.lone_other, w.lone_other) {
                    if l.insert_component_at == Some(fi) {
                        w.app.world.entity_mut(x).insert(Other::default());
                    }
                }
                if let (Some(l), Some(x)) = (&cfg.late_animator, w.late_animator) {
                    if l.insert_at == fi {
                        let an = match l.tl {
                            Some(i) => Animator::<Target>::with_timeline(build_target_merged(&cfg.tls[i])),
                            None => Animator::<Target>::new(),
                        };
                        w.app.world.entity_mut(x).insert(an);
                    }
                    if l.touch_at.contains(&fi) {
                        let mut e = w.app.world.entity_mut(x);
                        if let Some(mut sel) = e.get_mut::<AnimationSelector<Key, Target>>() {
                            let k = sel.timeline_key;
                            sel.timeline_key = k;
                        }
                    }
                }
            });
            if let Err(p) = r {
                bail_panic!(p, fi, "assembling a side entity");
            }
            if let Some(l) = &cfg.lone_other {
                if l.insert_component_at == Some(fi) {
                    out.count("op.lone_second_type_component_inserted_late");
                }
            }
            if let Some(l) = &cfg.late_animator {
                if l.insert_at == fi {
                    late_twin = l.tl.map(|i| Twin::new(cfg, i, None));
                    out.count("op.animator_inserted_after_selector");
                }
                if l.touch_at.contains(&fi) {
                    late_touched = true;
                    out.count("op.late_animator_entity_current_key_reassigned");
                }
            }
        }
        let lone_before = lone_snap(&w);
        let late_before = late_snap(&w);
        let before = snap(&w);
        let crowd_before = crowd_snap(&w);
        if user_set_key && before.key != key_before_ops {
            user_changed_key = true;
        }
        if user_changed_key {
            // the user intervened: a pending chain step must not fire any more
            if pending.is_some() {
                out.count("probe.user_key_change_cancelled_pending_chain");
            }
            pending = None;
            user_changed_since_end = true;
        }
        if user_set_key && !user_changed_key {
            out.count("probe.same_key_reassigned");
        }
        let raw_delta = Duration::from_nanos(frame.delta_ns);
        if frame.delta_ns >= 1_000_000_000_000 {
            out.astro_seconds += raw_delta.as_secs_f64();
        } else {
            out.sim_seconds += raw_delta.as_secs_f64();
        }

        // ---- the frame ------------------------------------------------------------------------
        // `delta` is the frame's delta as the app clock reports it (Time::delta): it is what the
        // property calls "each frame's delta" and differs from the wall-clock delta while the
        // app clock is paused or scaled
        let delta = match catch(|| w.frame(raw_delta)) {
            Ok(d) => d,
            Err(p) => bail_panic!(p, fi, format!("App::update (frame {fi}, wall-clock delta {raw_delta:?})")),
        };
        if delta != raw_delta {
            out.count("probe.app_clock_delta_differs_from_wall_clock");
        }
        let after = snap(&w);
        hash_snap(&mut h, &after);
        let crowd_after = crowd_snap(&w);
        for (st, p, c) in &crowd_after {
            h.u32(rank(*st) as u32 + 400);
            h.u64(p.as_nanos() as u64);
            h.f32(c.a);
            h.f32(c.b);
            h.u32(c.n as u32);
            h.u32(c.k as u32);
        }
        let lone_after = lone_snap(&w);
        let late_after = late_snap(&w);
        if let Some((st, p, x)) = lone_after {
            h.u32(rank(st) as u32 + 200);
            h.u64(p.as_nanos() as u64);
            h.f32(x.unwrap_or(-1.0));
        }
        if let Some((an, c, k)) = &late_after {
            if let Some((st, p)) = an {
                h.u32(rank(*st) as u32 + 300);
                h.u64(p.as_nanos() as u64);
            }
            h.f32(c.a);
            h.f32(c.b);
            h.u32(c.n as u32);
            h.u32(c.k as u32);
            h.u32(k.map(|k| k as u32).unwrap_or(999));
        }
        if std::env::var("BEVY_SIM_TRACE").is_ok() {
            eprintln!("frame {fi}: st={:?} pos={:?} key={:?} acted={:?} comp={} other={:?} single={}", after.state, after.pos, after.key, after.acted, tbrief(&after.comp), after.other, update_is_single_threaded(&w.app));
        }
        let events = w.drain_events();
        for (_, st) in &events {
            h.u32(rank(*st) as u32 + 100);
        }
        out.evaluations += 1;

        // ---- symmetry: the mirror entity got the same configuration and the same operations ----
        if let Some(mirror) = w.mirror {
            let ms = snap_of(&w, mirror);
            hash_snap(&mut h, &ms);
            out.count("probe.mirror_entity_frame");
            let mine: Vec<u8> = events.iter().filter(|(e, _)| *e == w.entity).map(|(_, s)| rank(*s)).collect();
            let theirs: Vec<u8> = events.iter().filter(|(e, _)| *e == mirror).map(|(_, s)| rank(*s)).collect();
            let differs = if ms.state != after.state {
                Some(format!("state {:?} vs {:?}", after.state, ms.state))
            } else if ms.pos != after.pos {
                Some(format!("position {:?} vs {:?}", after.pos, ms.pos))
            } else if ms.comp != after.comp {
                Some(format!("component {} vs {}", tbrief(&after.comp), tbrief(&ms.comp)))
            } else if ms.key != after.key || ms.acted != after.acted {
                Some(format!("selector key/acted {:?}/{:?} vs {:?}/{:?}", after.key, after.acted, ms.key, ms.acted))
            } else if ms.other.map(|o| (o.0, o.1)) != after.other.map(|o| (o.0, o.1)) {
                Some(format!("second animator {:?} vs {:?}", after.other, ms.other))
            } else if mine != theirs {
                Some(format!("events {mine:?} vs {theirs:?}"))
            } else {
                None
            };
            if let Some(d) = differs {
                let prop = if check19 { "C19" } else if check18 { "C18" } else { property };
                out.violation = Some(viol(
                    prop,
                    "identical-entities-diverge",
                    fi,
                    format!("frame {fi}: two entities with identical configuration and identical operations differ (main vs mirror): {d}"),
                    "mirror".into(),
                ));
                break;
            }
        }

        // ---- re-target detection (selector acted on a key change in this frame) ---------------
        // (a) the key the selector has acted on changed to another key; (b) a justified chain step
        // that maps the key to itself - "the animator will be reset" - re-acts on the same key: seen
        // as acted -> none -> acted when the chain system runs after the selection system, and as a
        // restart within one frame when it runs before it. After a justified chain step the
        // selector forgets the key it acted on until it acts again (acted = none).
        let other_ended_in_this_frame = matches!(
            (before.other, after.other),
            (Some((sb, _, _)), Some((sa, _, _))) if sb != AnimationState::Ended && sa == AnimationState::Ended
        );
        let chain_step_possible = |key: Option<Key>| -> bool {
            cfg.selector
                && chain_present
                && key.is_some()
                && chain_lookup(key.unwrap()).is_some()
                && before.acted == key
                && before.state == AnimationState::Ended
                && (main_ended_in_previous_frame
                    || (animator_touched_by_op && (ended_event_in_previous_frame || other_ended_in_this_frame)))
        };
        let hook_retarget = cfg.selector && after.acted != before.acted && after.acted.is_some();
        let self_loop_in_one_frame = !hook_retarget
            && before.key.is_some()
            && before.key == after.key
            && after.acted == before.acted
            && chain_step_possible(before.key)
            && chain_lookup(before.key.unwrap()) == before.key
            && (after.state != AnimationState::Ended || after.pos < before.pos);
        if self_loop_in_one_frame {
            out.count("probe.chain_self_loop_replayed_within_one_frame");
        }
        let retargeted = hook_retarget || self_loop_in_one_frame;
        if check19 && cfg.selector && before.acted.is_some() && after.acted.is_none() && after.key.is_some() && !chain_step_possible(before.key) {
            out.violation = Some(viol(
                "C19",
                "acted-key-forgotten-without-cause",
                fi,
                format!("frame {fi}: the selector forgot the key it had acted on ({:?}) although no chain step was due (state {:?}, key {:?}, chain present {chain_present})", before.acted, before.state, before.key),
                "acted-forgotten".into(),
            ));
            break;
        }
        if retargeted {
            out.count("probe.selector_retarget");
            let k = after.acted.unwrap();
            twin = keys_now.get(k as usize).copied().flatten().map(|i| Twin::new(cfg, i, Some(&before.comp)));
            current_key_entry_edited = false;
            ended_events_in_run = 0;
            stale_ended = false;
            swapped_while_ended = false;
            if twin.is_none() {
                out.count("probe.key_without_timeline_selected");
            }
        }
        let state_base = if retargeted { AnimationState::None } else { before.state };
        let pos_base = if retargeted { Duration::ZERO } else { before.pos };
        let en = before.enabled;
        let spec: Option<&MergedSpec> = twin.as_ref().map(|t| &cfg.tls[t.tl_index]);
        let total = spec.map(oracle::merged_total); // None = no timeline, Some(None) = infinite
        let min_delay = spec.map(oracle::merged_min_delay);
        let pos_base_s = pos_base.as_secs_f64();
        let pos_after_s = after.pos.as_secs_f64();
        let band = |x: f64, bound: f64| -> bool {
            // inside the float-rounding band of an off-grid boundary: accept either answer
            // (the grid of eighths is exact in f32 only below 2^21 s)
            let exact = cfg.grid && x.abs() < 2_097_152.0 && bound.abs() < 2_097_152.0;
            !exact && (x - bound).abs() <= 8.0 * (f32::EPSILON as f64) * bound.abs().max(1e-9) + 2e-9
        };

        // coverage: (state_base, state_after, enabled, delta class, retargeted)
        let remaining = total.flatten().map(|t| (t - pos_base_s).max(0.0));
        out.abstract_transitions.insert(hash_words(&[
            rank(state_base) as u64,
            rank(after.state) as u64,
            en as u64,
            delta_class(delta, remaining, total.flatten()),
            retargeted as u64,
        ]));

        let mut v: Option<Violation> = None;
        macro_rules! fail {
            ($prop:expr, $clause:expr, $($arg:tt)*) => {
                if v.is_none() {
                    v = Some(viol($prop, $clause, fi, format!($($arg)*), format!("{} fault={}", $clause, frame.fault)));
                }
            };
        }

        // ======================================================================================
        // side entities (C18: every enabled animator keeps time and announces its state changes,
        // whatever else exists in the world; C19: re-assigning the current key restarts nothing)
        // ======================================================================================
        if check18 {
            if let (Some(x), Some((sb, pb, xb)), Some((sa, pa, xa)), Some(l), Some(tw)) = (w.lone_other, lone_before, lone_after, &cfg.lone_other, &lone_twin) {
                out.count("probe.lone_second_type_animator_frame");
                if xb.is_none() {
                    out.count("probe.frame_without_any_component_of_the_animated_type");
                }
                let theirs: Vec<AnimationState> = events.iter().filter(|(e, _)| *e == x).map(|(_, s)| *s).collect();
                let exp: Vec<AnimationState> = if sa != sb { vec![sa] } else { vec![] };
                if theirs != exp {
                    fail!("C18", "events-do-not-match-state-changes", "frame {fi}: the lone Animator<Other> went {sb:?} -> {sa:?}; events sent for it: {theirs:?}, expected {exp:?}");
                }
                let want_pos = if sa == AnimationState::Ended { pb } else { pb + delta };
                if pa != want_pos {
                    fail!("C18", "position-not-conserved", "frame {fi}: the lone Animator<Other> (component of that type present in the world: {}): position {pb:?} -> {pa:?} over a frame of {delta:?} ending in state {sa:?}", xb.is_some());
                }
                // state as a function of the position at the start of the frame
                let delay = l.spec.delay as f64;
                let cycles = match l.spec.repeat {
                    Rep::None => 1.0,
                    Rep::Times(n) => n as f64 + 1.0,
                    Rep::Infinite => f64::INFINITY,
                };
                let total = delay + l.spec.duration as f64 * cycles;
                let pbs = (pb.as_secs_f64() as f32) as f64;
                if !band(pbs, delay) && !band(pbs, total) {
                    let want = if sb == AnimationState::Ended || pbs >= total {
                        AnimationState::Ended
                    } else if pbs >= delay {
                        AnimationState::Playing
                    } else {
                        AnimationState::Waiting
                    };
                    if sa != want {
                        fail!("C18", "state-does-not-follow-position", "frame {fi}: the lone Animator<Other> (delay {delay}, total {total}) was {sb:?} at {pb:?} and is {sa:?} after the frame; expected {want:?}");
                    }
                }
                if let (Some(_), Some(xa)) = (xb, xa) {
                    let eval = |p: Duration| {
                        let mut o = Other::default();
                        tw.update(&mut o, p.as_secs_f64() as f32);
                        o.x
                    };
                    if sa == AnimationState::Playing && xa != eval(pb) && xa != eval(pa) {
                        fail!("C18", "playing-component-stale", "frame {fi}: the late-completed Animator<Other> is Playing at {pa:?} but the component is {xa}; the timeline gives {} / {}", eval(pb), eval(pa));
                    }
                    if sa == AnimationState::Ended && sb != AnimationState::Ended {
                        lone_had_component_when_it_ended = true;
                    }
                    if sa == AnimationState::Ended && lone_had_component_when_it_ended && (xa - 1.0).abs() > 1e-5 {
                        fail!("C18", "ended-without-terminal-values", "frame {fi}: the late-completed Animator<Other> reports Ended but the component is {xa} (terminal value 1)");
                    }
                }
            }
        }
        if check18 || check19 {
            let p = if check19 { "C19" } else { "C18" };
            if let (Some(x), Some((anb, cb, _)), Some((ana, ca, ka))) = (w.late_animator, &late_before, &late_after) {
                let theirs: Vec<AnimationState> = events.iter().filter(|(e, _)| *e == x).map(|(_, s)| *s).collect();
                if *ka != Some(cfg.initial_key) {
                    fail!("C19", "key-changed-without-cause", "frame {fi}: the selector of the entity whose animator arrived late (no chain, key never changed by the user) now has key {ka:?}");
                }
                match (anb, ana) {
                    (Some((sb, pb)), Some((sa, pa))) => {
                        out.count("probe.late_animator_frame");
                        if late_touched {
                            out.count("probe.current_key_reassigned_after_animator_arrived_late");
                        }
                        // The property does not say whether an animator that arrives after its
                        // selector takes over the selector's current key. For LATENCY frames
                        // after its arrival either is accepted (keep what it was built with, or be
                        // re-targeted once onto the key's timeline); what it says is that from
                        // then on re-assigning the current key restarts nothing.
                        let arrived_at = cfg.late_animator.as_ref().map(|l| l.insert_at).unwrap_or(0);
                        let mut continue_late_checks = true;
                        if fi <= arrived_at + LATENCY {
                            if rank(*sa) < rank(*sb) || pa < pb || (*sa != AnimationState::Ended && late_twin.is_some() && *pa != *pb + delta) {
                                late_adopted = true;
                                out.count("probe.late_animator_adopted_the_selectors_key");
                            }
                            continue_late_checks = false;
                        }
                        let lspec: Option<&MergedSpec> = if late_adopted { None } else { late_twin.as_ref().map(|t| &cfg.tls[t.tl_index]) };
                        if !continue_late_checks {
                            // (inside the grace window nothing else is claimed)
                        } else if late_adopted {
                            // which timeline it plays is the selector's business now; it must not
                            // restart and must keep time
                            if rank(*sa) < rank(*sb) || pa < pb {
                                fail!(p, "reassigning-current-key-restarted", "frame {fi}: entity whose animator arrived after its selector (current key re-assigned before this frame: {late_touched}): the animator went {sb:?} @ {pb:?} -> {sa:?} @ {pa:?} although the key never changed");
                            }
                        } else if rank(*sa) < rank(*sb) || pa < pb {
                            fail!(p, "reassigning-current-key-restarted", "frame {fi}: entity whose animator arrived after its selector (current key re-assigned before this frame: {late_touched}): the animator went {sb:?} @ {pb:?} -> {sa:?} @ {pa:?} although the key never changed");
                        }
                        if continue_late_checks && !late_adopted {
                        let want_pos = if *sa == AnimationState::Ended || lspec.is_none() { *pb } else { *pb + delta };
                        if *pa != want_pos {
                            fail!(p, "position-not-conserved", "frame {fi}: entity whose animator arrived after its selector: position {pb:?} -> {pa:?} over a frame of {delta:?} ending in state {sa:?}");
                        }
                        let exp: Vec<AnimationState> = if sa != sb { vec![*sa] } else { vec![] };
                        if theirs != exp {
                            fail!(p, "events-do-not-match-state-changes", "frame {fi}: entity whose animator arrived after its selector went {sb:?} -> {sa:?}; events sent for it: {theirs:?}, expected {exp:?}");
                        }
                        if let Some(f) = unkeyed_changed(lspec, cb, ca) {
                            fail!(p, "unanimated-field-written", "frame {fi}: entity whose animator arrived after its selector: field {f} changed although the animator's own timeline does not keyframe it (the selector's timeline was installed?)");
                        }
                        match (&late_twin, lspec) {
                            (Some(t), Some(m)) => {
                                if *sa == AnimationState::Playing {
                                    let c1 = t.eval(cb, *pb);
                                    let c2 = t.eval(cb, *pa);
                                    if !keyed_equal(m, ca, &c1) && !keyed_equal(m, ca, &c2) {
                                        fail!(p, "playing-component-stale", "frame {fi}: entity whose animator arrived after its selector is Playing at {pa:?} but the component is {}; the timeline it was built with gives {} / {}", tbrief(ca), tbrief(&c1), tbrief(&c2));
                                    }
                                }
                            }
                            _ => {
                                if *sa != AnimationState::None || ca != cb {
                                    fail!(p, "no-timeline-not-idle", "frame {fi}: entity whose timeline-less animator arrived after its selector: state {sa:?}, component {} -> {}", tbrief(cb), tbrief(ca));
                                }
                            }
                        }
                        }
                    }
                    _ => {
                        if ca != cb || !theirs.is_empty() {
                            fail!(p, "entity-without-animator-written", "frame {fi}: an entity that has a selector but no Animator yet changed ({} -> {}) or got events {theirs:?}", tbrief(cb), tbrief(ca));
                        }
                    }
                }
            }
        }

        // ======================================================================================
        // C18 - the Animator
        // ======================================================================================
        if check18 || check19 || check08 {
            let p = if check18 { "C18" } else if check19 { "C19" } else { "C08" };
            // un-animated content is never touched (C08 Bevy part; also asserted under C18/C19)
            if let Some(f) = unkeyed_changed(spec, &before.comp, &after.comp) {
                fail!(if check08 { "C08" } else { p }, "unanimated-field-written",
                    "frame {fi}: field {f} of the target changed from {} (extra {:#x}) to {} (extra {:#x}) but the animator's timeline has no keyframe for it",
                    tbrief(&before.comp), before.comp.extra, tbrief(&after.comp), after.comp.extra);
            }
            if after.bystander != before.bystander || after.bystander_v != before.bystander_v {
                fail!(if check08 { "C08" } else { p }, "bystander-written", "frame {fi}: an entity without an Animator changed");
            }
            if check08 {
                out.triggered = true;
                out.distinct.insert(hash_words(&[rank(after.state) as u64, spec.is_some() as u64, retargeted as u64, en as u64]));
            }
        }
        if check18 {
            let nontrivial = state_base != after.state || !en || retargeted || frame.fault != "none";
            if nontrivial {
                out.triggered = true;
                out.distinct.insert(hash_words(&[
                    rank(state_base) as u64,
                    rank(after.state) as u64,
                    en as u64,
                    delta_class(delta, remaining, total.flatten()),
                    retargeted as u64,
                    spec.map(|m| m.parts.len()).unwrap_or(0) as u64,
                    spec.map(|m| m.parts.iter().any(|p| p.delay > 0.0)).unwrap_or(false) as u64,
                ]));
            }
            // events expected from the Target animator
            let target_changed = after.state != state_base;
            if !en {
                // (h) a disabled animator changes nothing
                if after.state != state_base || after.pos != pos_base {
                    fail!("C18", "disabled-animator-changed", "frame {fi}: disabled animator went {state_base:?}@{pos_base:?} -> {:?}@{:?}", after.state, after.pos);
                }
                if keyed_differs(spec, &before.comp, &after.comp) {
                    fail!("C18", "disabled-animator-changed", "frame {fi}: disabled animator changed the component {} -> {}", tbrief(&before.comp), tbrief(&after.comp));
                }
                // ... not even as far as bevy's change detection is concerned: nobody may take
                // mutable access to the disabled animator or to its target in the frame (a key
                // change acted on by the selector does hand the animator a new timeline, whether
                // it is enabled or not: that is the selector writing, not the animator)
                if !retargeted && (before.animator_tick != after.animator_tick || before.target_tick != after.target_tick) {
                    fail!("C18", "disabled-animator-marked-changed", "frame {fi}: the frame marked the disabled animator (change tick {:?} -> {:?}) or its target component ({:?} -> {:?}) as changed", before.animator_tick, after.animator_tick, before.target_tick, after.target_tick);
                }
                out.count("probe.disabled_frame");
            } else if spec.is_none() {
                if after.state != AnimationState::None || after.pos != pos_base {
                    fail!("C18", "no-timeline-not-idle", "frame {fi}: animator without a timeline is {:?}@{:?} (was {state_base:?}@{pos_base:?})", after.state, after.pos);
                }
            } else {
                let total = total.unwrap();
                let min_delay = min_delay.unwrap();
                // (a) time is conserved
                let grown = pos_base.saturating_add(delta);
                if after.state != AnimationState::Ended {
                    // (on a re-target frame "from its beginning" allows the position to be 0 or
                    // one frame into the new timeline, whichever side of the animation system
                    // the re-target took effect)
                    if after.pos != grown && !(retargeted && after.pos == Duration::ZERO) {
                        fail!("C18", "position-not-conserved", "frame {fi}: state {:?}, position {:?} + delta {delta:?} should be {grown:?}, is {:?}", after.state, pos_base, after.pos);
                    }
                } else if state_base == AnimationState::Ended {
                    if after.pos != pos_base {
                        fail!("C18", "position-grows-after-end", "frame {fi}: ended animator's position moved {pos_base:?} -> {:?}", after.pos);
                    }
                } else if after.pos != pos_base && after.pos != grown {
                    fail!("C18", "position-not-conserved", "frame {fi}: on the ending frame position {pos_base:?} became {:?} (delta {delta:?})", after.pos);
                }
                // (b) forward only
                if rank(after.state) < rank(state_base) && !swapped_while_ended {
                    fail!("C18", "state-went-backwards", "frame {fi}: {state_base:?} -> {:?} without reset or re-target", after.state);
                }
                if after.state == AnimationState::None && !retargeted {
                    fail!("C18", "enabled-animator-stays-none", "frame {fi}: enabled animator with a timeline is still None after the frame");
                }
                // (c) Waiting only while the position is before the delay
                if after.state == AnimationState::Waiting && !(pos_base_s < min_delay) && !band(pos_base_s, min_delay) {
                    fail!("C18", "waiting-after-delay", "frame {fi}: Waiting although the position {pos_base:?} is not before the delay {min_delay}");
                }
                // (d)/(e) Ended: never before the total duration, no later than one frame after
                match total {
                    None => {
                        if after.state == AnimationState::Ended && !swapped_while_ended {
                            fail!("C18", "ended-although-infinite", "frame {fi}: Ended at {:?} for an infinitely repeating timeline", after.pos);
                        }
                    }
                    Some(t) => {
                        if after.state == AnimationState::Ended && state_base != AnimationState::Ended && pos_after_s < t && !band(pos_after_s, t) {
                            fail!("C18", "ended-too-early", "frame {fi}: Ended at position {:?}, total duration is {t}", after.pos);
                        }
                        if pos_base_s >= t && !band(pos_base_s, t) && after.state != AnimationState::Ended {
                            fail!("C18", "not-ended-one-frame-after-total", "frame {fi}: position {pos_base:?} had reached the total {t} before this frame, state is {:?}", after.state);
                        }
                        if cfg.grid && pos_base_s == t {
                            out.count("probe.landed_exactly_on_end");
                        }
                        // ... strictly so where "reached" is unambiguous: the total is itself an
                        // f32 (no delay, no repetition: the longest cycle, at least 1/64 s so that
                        // an f32 step is not finer than the nanosecond clock) and the position, as
                        // the f32 nearest to it, is at or beyond it
                        let m = spec.unwrap();
                        let simple = !m.parts.is_empty() && m.parts.iter().all(|p| p.delay == 0.0 && p.repeat == Rep::None);
                        if simple {
                            let total32 = m.parts.iter().map(|p| p.duration).fold(0.0f32, f32::max);
                            if total32 >= 1.0 / 64.0
                                && after.state == AnimationState::Ended
                                && state_base != AnimationState::Ended
                                && (after.pos.as_secs_f64() as f32) < total32
                            {
                                fail!("C18", "ended-too-early", "frame {fi}: Ended at position {:?} (as f32: {:?}), before the total duration {total32:?}", after.pos, after.pos.as_secs_f64() as f32);
                            }
                            if total32 >= 1.0 / 64.0 && (pos_base.as_secs_f64() as f32) >= total32 {
                                out.count("probe.position_reached_an_unambiguous_total");
                                if after.state != AnimationState::Ended {
                                    fail!("C18", "not-ended-one-frame-after-total", "frame {fi}: the position {pos_base:?} had reached the total duration {total32:?} before this frame (the f32 nearest to the position is at or beyond it), state is {:?}", after.state);
                                }
                            }
                        }
                    }
                }
                if state_base != AnimationState::Ended && after.state == AnimationState::Ended {
                    out.count("probe.reached_ended");
                    if state_base == AnimationState::Waiting || state_base == AnimationState::None {
                        out.count("probe.ended_skipping_playing");
                    }
                }
                // (f) Ended => terminal values
                if after.state == AnimationState::Ended && !swapped_while_ended {
                    let m = spec.unwrap();
                    // Off the exact grid the final evaluation may have happened within a rounding
                    // or two of the end instant ("in the band"): the component then holds the
                    // terminal values within float rounding of the evaluation time
                    // (oracle::band_tolerance), unless the timeline approaches its end through a
                    // (near-)discontinuity. Past the band, and on the grid, the usual tolerance.
                    // The animator's last evaluation is an evaluation of the end of the timeline, so
                    // the terminal values are required to the usual tolerance wherever - relative to
                    // the end instant - the animator decided that it had ended.
                    {
                        let va = vals_of(&after.comp);
                        for prop in 0..4 {
                            if let Some(term) = oracle::merged_terminal(m, prop) {
                                let actual = oracle::get_prop(&va, prop);
                                let extra = match oracle::get_prop(&vals_of(&before.comp), prop) {
                                    PropVal::F(x) => x,
                                    _ => 0.0,
                                };
                                let close = oracle::prop_close(actual, term, oracle::float_scale(m, prop, extra), 8.0);
                                if !close {
                                    fail!("C18", "ended-without-terminal-values", "frame {fi}: animator reports Ended (position {:?}, total {:?}) but {} is {actual:?}; the timeline's terminal value is {term:?} (state before the frame: {state_base:?})", after.pos, total, PROP_NAMES[prop]);
                                }
                                out.count("probe.terminal_value_checked");
                            }
                        }
                    }
                }
                // (g) Playing => component equals the timeline at a position at most one frame old
                if after.state == AnimationState::Playing {
                    let t = twin.as_ref().unwrap();
                    let m = spec.unwrap();
                    let c1 = t.eval(&before.comp, pos_base);
                    let c2 = t.eval(&before.comp, after.pos);
                    if !keyed_equal(m, &after.comp, &c1) && !keyed_equal(m, &after.comp, &c2) {
                        fail!("C18", "playing-component-stale", "frame {fi}: Playing at {:?} but the component is {}; the timeline gives {} at {pos_base:?} and {} at {:?} (state before the frame {state_base:?}, re-targeted {retargeted})", after.pos, tbrief(&after.comp), tbrief(&c1), tbrief(&c2), after.pos);
                    } else if let Some(d) = t.reference_mismatch(cfg, &after.comp, &[pos_base, after.pos]) {
                        fail!("C18", "playing-component-vs-documented-timeline-semantics", "frame {fi}: Playing: {d}");
                    }
                    out.count("probe.playing_frame_checked");
                }
            }
            // (i) events
            // the extra plain entity: its own events and the clauses that do not need operations
            if let (Some(x), Some((sb, pb, cb)), Some((sa, pa, ca)), Some(tw)) = (w.extra, &before.extra, &after.extra, &extra_twin) {
                let theirs: Vec<AnimationState> = events.iter().filter(|(e, _)| *e == x).map(|(_, s)| *s).collect();
                let exp: Vec<AnimationState> = if sa != sb { vec![*sa] } else { vec![] };
                if theirs != exp {
                    fail!("C18", "events-do-not-match-state-changes", "frame {fi}: second entity went {sb:?} -> {sa:?}; events sent for it: {theirs:?}, expected {exp:?}");
                }
                let m = &cfg.tls[tw.tl_index];
                if *sa != AnimationState::Ended && *pa != *pb + delta {
                    fail!("C18", "position-not-conserved", "frame {fi}: second entity: {pb:?} + {delta:?} != {pa:?} in state {sa:?}");
                }
                if let (Some(cb), Some(ca)) = (cb, ca) {
                    if *sa == AnimationState::Playing {
                        let c1 = tw.eval(cb, *pb);
                        let c2 = tw.eval(cb, *pa);
                        if !keyed_equal(m, ca, &c1) && !keyed_equal(m, ca, &c2) {
                            fail!("C18", "playing-component-stale", "frame {fi}: second entity Playing at {pa:?} but its component is {}; timeline gives {} / {}", tbrief(ca), tbrief(&c1), tbrief(&c2));
                        }
                    }
                    if let Some(f) = unkeyed_changed(Some(m), cb, ca) {
                        fail!("C18", "unanimated-field-written", "frame {fi}: second entity: field {f} changed although its timeline does not keyframe it");
                    }
                } else {
                    out.count("probe.extra_entity_frame_without_component");
                }
                if *sa == AnimationState::Ended && *sb != AnimationState::Ended {
                    out.count("probe.second_entity_ended");
                    if after.state == AnimationState::Ended && state_base != AnimationState::Ended {
                        out.count("probe.both_entities_ended_in_same_frame");
                    }
                }
            }
            // the crowd: more animators of one type than a handful. Nobody touches them, so each is
            // a plain animator from frame 0 on: position conserved until Ended, one event per state
            // change, a Playing component on its timeline - and all of them alike.
            if let (Some((tl, _)), false) = (cfg.crowd, w.crowd.is_empty()) {
                let m = &cfg.tls[tl];
                let tw = crowd_twin.get_or_insert_with(|| Twin::new(cfg, tl, None));
                out.count("probe.crowd_frame");
                for (i, x) in w.crowd.iter().enumerate() {
                    let (sb, pb, cb) = &crowd_before[i];
                    let (sa, pa, ca) = &crowd_after[i];
                    let theirs: Vec<AnimationState> = events.iter().filter(|(e, _)| e == x).map(|(_, s)| *s).collect();
                    let exp: Vec<AnimationState> = if sa != sb { vec![*sa] } else { vec![] };
                    if theirs != exp {
                        fail!("C18", "events-do-not-match-state-changes", "frame {fi}: crowd entity {i} of {} went {sb:?} -> {sa:?}; events sent for it: {theirs:?}, expected {exp:?}", w.crowd.len());
                    }
                    if *sa != AnimationState::Ended && *pa != *pb + delta {
                        fail!("C18", "position-not-conserved", "frame {fi}: crowd entity {i} of {}: {pb:?} + {delta:?} != {pa:?} in state {sa:?}", w.crowd.len());
                    }
                    if *sa == AnimationState::None || rank(*sa) < rank(*sb) {
                        fail!("C18", "state-went-backwards", "frame {fi}: crowd entity {i} of {}: {sb:?} -> {sa:?}", w.crowd.len());
                    }
                    if i == 0 {
                        if *sa == AnimationState::Playing {
                            let c1 = tw.eval(cb, *pb);
                            let c2 = tw.eval(cb, *pa);
                            if !keyed_equal(m, ca, &c1) && !keyed_equal(m, ca, &c2) {
                                fail!("C18", "playing-component-stale", "frame {fi}: crowd entity 0 Playing at {pa:?} but its component is {}; timeline gives {} / {}", tbrief(ca), tbrief(&c1), tbrief(&c2));
                            }
                        }
                        if let Some(f) = unkeyed_changed(Some(m), cb, ca) {
                            fail!("C18", "unanimated-field-written", "frame {fi}: crowd entity 0: field {f} changed although its timeline does not keyframe it");
                        }
                    } else {
                        let (s0, p0, c0) = &crowd_after[0];
                        if sa != s0 || pa != p0 || ca != c0 {
                            fail!("C18", "identical-entities-diverge", "frame {fi}: crowd entity {i} of {} is {sa:?} at {pa:?} with {} while crowd entity 0 is {s0:?} at {p0:?} with {}", w.crowd.len(), tbrief(ca), tbrief(c0));
                        }
                    }
                }
            }
            let mine: Vec<AnimationState> = events.iter().filter(|(e, _)| *e == w.entity).map(|(_, s)| *s).collect();
            let mut expected: Vec<AnimationState> = Vec::new();
            if target_changed {
                expected.push(after.state);
            } else if retargeted && twin.is_none() && before.state != AnimationState::None && after.state == AnimationState::None {
                // the selector moved to a key without a timeline: the animator went from whatever
                // it was doing to None - a state change like any other, to be announced
                expected.push(AnimationState::None);
                out.count("probe.lost_timeline_while_animating");
            }
            if let (Some((sb, _, _)), Some((sa, _, _))) = (before.other, after.other) {
                if sa != sb {
                    expected.push(sa);
                }
            }
            let mut got_sorted: Vec<u8> = mine.iter().map(|s| rank(*s)).collect();
            let mut exp_sorted: Vec<u8> = expected.iter().map(|s| rank(*s)).collect();
            got_sorted.sort();
            exp_sorted.sort();
            if got_sorted != exp_sorted {
                fail!("C18", "events-do-not-match-state-changes", "frame {fi}: state {state_base:?} -> {:?} (second animator {:?} -> {:?}); events sent: {mine:?}, expected {expected:?}", after.state, before.other.map(|o| o.0), after.other.map(|o| o.0));
            }
            if cfg.orphan.is_none() && events.iter().any(|(e, _)| *e != w.entity && Some(*e) != w.extra && Some(*e) != w.mirror && Some(*e) != w.lone_other && Some(*e) != w.late_animator && !w.crowd.contains(e)) {
                fail!("C18", "event-for-wrong-entity", "frame {fi}: an event names an entity without an animator");
            }
            if target_changed && after.state == AnimationState::Ended {
                ended_events_in_run += 1;
                if ended_events_in_run > 1 && !swapped_while_ended {
                    fail!("C18", "more-than-one-ended-per-run", "frame {fi}: a second Ended without reset or re-target");
                }
            }
        }

        // ======================================================================================
        // C19 - selector and chain
        // ======================================================================================
        if check19 && cfg.selector && before.key.is_some() && after.key.is_some() {
            let key_before = before.key.unwrap();
            let key_after = after.key.unwrap();
            let nontrivial = retargeted || user_set_key || key_before != key_after || pending.is_some();
            if nontrivial {
                out.triggered = true;
                out.distinct.insert(hash_words(&[
                    rank(state_base) as u64,
                    rank(after.state) as u64,
                    retargeted as u64,
                    user_changed_key as u64,
                    (user_set_key && !user_changed_key) as u64,
                    (key_before != key_after) as u64,
                    pending.is_some() as u64,
                    simkit::rng::fnv1a(cfg.order.sequence.join(",").as_bytes()),
                    cfg.second.is_some() as u64,
                    twin.is_some() as u64,
                ]));
            }
            // 3. nothing restarts unless a key change was acted on: in particular re-assigning the
            //    current key keeps the position growing and the state moving forward only
            if !retargeted && before.enabled && twin.is_some() {
                let restarted = (after.state != AnimationState::Ended && after.pos != pos_base.saturating_add(delta))
                    || (state_base == AnimationState::Ended && after.pos != pos_base)
                    || rank(after.state) < rank(state_base);
                if restarted {
                    let clause = if user_set_key && !user_changed_key { "same-key-restarted" } else { "restarted-without-key-change" };
                    fail!("C19", clause, "frame {fi}: no key change was acted on (key {key_before}, same key re-assigned: {}), but the animator went {state_base:?}@{pos_base:?} -> {:?}@{:?} with delta {delta:?}", user_set_key && !user_changed_key, after.state, after.pos);
                }
            }
            // the key that has been active for more than LATENCY frames is the one in effect:
            // the animator plays exactly that key's timeline (or none if the key has none) -
            // independently of what the selector's own bookkeeping claims to have acted on
            if key_before == key_after && !user_set_key {
                key_stable_frames += 1;
            } else {
                key_stable_frames = 0;
            }
            if key_stable_frames > LATENCY && !current_key_entry_edited {
                let expected = keys_now.get(key_after as usize).copied().flatten();
                let playing = twin.as_ref().map(|t| t.tl_index);
                if expected != playing {
                    fail!("C19", "selector-key-not-in-effect", "frame {fi}: key {key_after} has been active for {key_stable_frames} frames; its timeline is {expected:?} but the animator is set up for timeline {playing:?} (state {:?})", after.state);
                } else if expected.is_none() && (after.state != AnimationState::None || after.comp != before.comp) {
                    fail!("C19", "key-without-timeline-animates", "frame {fi}: key {key_after} has no timeline and has been active for {key_stable_frames} frames, but the animator is {:?} / the component changed", after.state);
                }
            }
            // liveness: a key change is acted on within LATENCY frames
            if after.acted != Some(key_after) {
                unacted_frames += 1;
                if unacted_frames > LATENCY {
                    fail!("C19", "key-change-never-acted-on", "frame {fi}: selector key is {key_after} but the animator still plays key {:?} after {unacted_frames} frames", after.acted);
                }
            } else {
                unacted_frames = 0;
            }
            // 6. chain safety: a key change inside a frame is justified only if, when the frame
            //    began, the governed animator was Ended having played exactly the key that was
            //    active (acted-on key == selector key), and the chain maps that key to the new one
            if key_after != key_before {
                // ... and only an Ended event can make the chain act: one announced for this
                // entity in the previous frame, or in this frame by the other animator on the
                // entity (whose system may run before the chain system). An end that was announced
                // long ago - say while the chain component was detached - is no cause any more.
                let other_ended_now = matches!(
                    (before.other, after.other),
                    (Some((sb, _, _)), Some((sa, _, _))) if sb != AnimationState::Ended && sa == AnimationState::Ended
                );
                // The cause has to be the end of the *governed* animator, announced in the previous
                // frame - not the end of some other animator on the entity finding the governed one
                // resting at an end it reached long ago (possibly while the chain had no entry for
                // the key, or was not attached). One narrow exception is tolerated: the user
                // wrote to the Ended animator between the frames (enable flag, position) and
                // another animator's end arrives at the same time - the plugin cannot tell that
                // from a fresh end without a marker of its own.
                let fresh_event = main_ended_in_previous_frame
                    || (animator_touched_by_op && (ended_event_in_previous_frame || other_ended_now));
                let justified = chain_present
                    && chain_lookup(key_before) == Some(key_after)
                    && before.acted == Some(key_before)
                    && before.state == AnimationState::Ended
                    && fresh_event;
                if justified {
                    out.count("probe.chain_fired");
                    if let Some(p) = &pending {
                        if fi + LATENCY - p.deadline == 0 {
                            out.count("probe.chain_fired_next_frame");
                        }
                    }
                    pending = None;
                } else {
                    let why = if chain_present
                        && chain_lookup(key_before) == Some(key_after)
                        && before.acted == Some(key_before)
                        && before.state == AnimationState::Ended
                    {
                        "the governed animator did not end in the previous frame (it has been resting at its end for longer; what ended now is another animator on the entity, or nothing)"
                    } else if before.acted != Some(key_before) {
                        "that key had been assigned since the last animation ended and never played (the animator was still set up for another key)"
                    } else if before.state != AnimationState::Ended {
                        "the governed Animator<Target> had not ended (another animator on the entity may have)"
                    } else {
                        "the chain does not map the active key to the new key"
                    };
                    fail!("C19", "chain-fired-without-cause", "frame {fi}: selector key changed {key_before} -> {key_after} inside the frame, but {why} (animator {state_base:?} -> {:?}, acted-on key {:?}, user changed key since the end: {user_changed_since_end}, chain {:?})", after.state, before.acted, cfg.chain);
                }
            }
            // a chain entry k -> k: the step shows as a re-target onto the same key
            if let Some(p) = &pending {
                if p.from == p.to && retargeted && after.acted == Some(p.to) {
                    out.count("probe.chain_self_loop_replayed");
                    pending = None;
                }
            }
            // 4b. a key change made by the user - the selector's key as the user saw it before
            // the assignment differs from the key assigned - makes the animator play that key's
            // timeline from its beginning, whatever the selector's own bookkeeping says about the
            // key it acted on last (the previous key may be one the chain had just moved to and
            // the selector never acted on)
            if user_changed_key {
                awaiting_user_key = Some((key_before, fi + LATENCY));
            }
            if let Some((k, deadline)) = awaiting_user_key {
                if retargeted && after.acted == Some(k) {
                    awaiting_user_key = None;
                } else if key_after != k {
                    awaiting_user_key = None;
                } else if fi + 1 >= deadline {
                    fail!("C19", "key-change-swallowed", "frame {fi}: the user changed the selector's key to {k} {LATENCY} frames ago, but the animator was never re-targeted to it (acted-on key {:?}, state {:?} at {:?}): it keeps whatever it played before instead of playing key {k}'s timeline from the beginning", after.acted, after.state, after.pos);
                }
            }
            // 5. chain liveness
            if let Some(p) = &pending {
                if fi >= p.deadline {
                    fail!("C19", "chain-did-not-fire", "frame {fi}: key {} ended and the chain maps it to {}, but the selector is still on {key_after} after {LATENCY} frames", p.from, p.to);
                }
            }
            // the governed animator ends while key k is active -> arm the chain
            let target_ended_now = state_base != AnimationState::Ended && after.state == AnimationState::Ended;
            if target_ended_now {
                user_changed_since_end = false;
                if after.acted == Some(key_after) {
                    if let Some(to) = chain_lookup(key_after).filter(|_| chain_present) {
                        pending = Some(Pending {
                            from: key_after,
                            to,
                            deadline: fi + LATENCY,
                        });
                        out.count("probe.chain_armed");
                    } else {
                        out.count("probe.ended_without_chain_entry");
                    }
                }
            }
            if let (Some((sb, _, _)), Some((sa, _, _))) = (before.other, after.other) {
                if sb != AnimationState::Ended && sa == AnimationState::Ended {
                    out.count("probe.other_animator_ended");
                }
            }
            if let (Some((sb, _, _)), Some((sa, _, _))) = (&before.extra, &after.extra) {
                if *sb != AnimationState::Ended && *sa == AnimationState::Ended && target_ended_now {
                    out.count("probe.plain_entity_ended_in_same_frame_as_chained_entity");
                }
            }
            // 1./2./4. the component follows the acted key's timeline from the values it had at
            // the switch (no jump), or is left alone for a key without a timeline
            match (&twin, spec) {
                (None, _) => {
                    if after.acted.is_some() && (after.state != AnimationState::None) {
                        fail!("C19", "key-without-timeline-animates", "frame {fi}: key {:?} has no timeline but the animator is {:?}", after.acted, after.state);
                    }
                    if after.acted.is_some() && after.comp != before.comp {
                        fail!("C19", "key-without-timeline-animates", "frame {fi}: key {:?} has no timeline but the component changed", after.acted);
                    }
                }
                (Some(t), Some(m)) => {
                    if before.enabled {
                        match after.state {
                            AnimationState::Playing => {
                                let c1 = t.eval(&before.comp, pos_base);
                                let c2 = t.eval(&before.comp, after.pos);
                                if !keyed_equal(m, &after.comp, &c1) && !keyed_equal(m, &after.comp, &c2) {
                                    let clause = if retargeted { "jump-on-key-change" } else { "not-following-new-timeline" };
                                    fail!("C19", clause, "frame {fi}: key {:?} (re-targeted this frame: {retargeted}); component {} -> {}; its timeline started from the values at the switch gives {} at {pos_base:?} and {} at {:?}", after.acted, tbrief(&before.comp), tbrief(&after.comp), tbrief(&c1), tbrief(&c2), after.pos);
                                } else if let Some(d) = t.reference_mismatch(cfg, &after.comp, &[pos_base, after.pos]) {
                                    let clause = if retargeted { "jump-on-key-change" } else { "not-following-new-timeline" };
                                    fail!("C19", clause, "frame {fi}: key {:?} (re-targeted this frame: {retargeted}), blended from {}: {d}", after.acted, tbrief(&before.comp));
                                }
                                out.count("probe.playing_frame_checked");
                            }
                            AnimationState::Waiting => {
                                if retargeted && keyed_differs(Some(m), &before.comp, &after.comp) {
                                    fail!("C19", "jump-on-key-change", "frame {fi}: key changed to a delayed timeline and the component jumped {} -> {}", tbrief(&before.comp), tbrief(&after.comp));
                                }
                            }
                            AnimationState::None => {
                                fail!("C19", "key-with-timeline-not-playing", "frame {fi}: key {:?} has a timeline but the enabled animator is None", after.acted);
                            }
                            AnimationState::Ended => {}
                        }
                        if retargeted && after.state != AnimationState::Ended && after.pos != delta && after.pos != Duration::ZERO {
                            fail!("C19", "not-from-the-beginning", "frame {fi}: re-targeted to key {:?} but the position is {:?} (frame delta {delta:?})", after.acted, after.pos);
                        }
                    }
                }
                _ => {}
            }
        }
        if check20 {
            out.triggered = true;
            out.distinct.insert(hash_words(&[
                rank(state_base) as u64,
                rank(after.state) as u64,
                simkit::rng::fnv1a(frame.fault.as_bytes()),
                delta_class(delta, remaining, total.flatten()),
            ]));
            if !(after.comp.a.is_finite() && after.comp.b.is_finite()) {
                fail!("C20", "non-finite-value", "frame {fi}: component became {}", tbrief(&after.comp));
            }
        }
        if let Some(v) = v {
            out.violation = Some(v);
            break;
        }
        ended_event_in_previous_frame = events.iter().any(|(e, st)| *e == w.entity && *st == AnimationState::Ended);
        main_ended_in_previous_frame = state_base != AnimationState::Ended && after.state == AnimationState::Ended;
    }
    out.obs_hash = h.0;
    out
}

fn keyed_differs(spec: Option<&MergedSpec>, x: &Target, y: &Target) -> bool {
    match spec {
        Some(m) => !keyed_equal(m, x, y),
        None => false,
    }
}

struct BevyEngine;

impl Engine for BevyEngine {
    type Scn = BScn;
    fn name(&self) -> &'static str {
        "bevy_sim"
    }
    fn properties(&self) -> &'static [&'static str] {
        &["C18", "C19", "C08", "C20"]
    }
    fn generate(&self, rng: &mut Rng, property: &str, tier: Tier) -> BScn {
        gen::generate(rng, property, tier == Tier::Thorough)
    }
    fn execute(&self, scn: &BScn, property: &str) -> RunOutcome {
        // A panic anywhere else than inside `App::update` / an operation (those are caught where
        // they happen) comes from evaluating a real timeline for the oracle - the twin of the
        // animator's timeline at a position the animator itself evaluates. It is the library that
        // panics; it is reported like any other panic of the library.
        match catch(|| execute(scn, property)) {
            Ok(out) => out,
            Err(p) => {
                let mut out = RunOutcome::default();
                out.violation = Some(viol(
                    property,
                    &format!("panic@{}:{}", p.file, p.line),
                    0,
                    format!("evaluating the animator's timeline (twin) panicked: {}", p.describe()),
                    "panic twin".into(),
                ));
                out
            }
        }
    }
    fn shrink_candidates(&self, scn: &BScn) -> Vec<BScn> {
        gen::shrink_candidates(scn)
    }
    fn size(&self, scn: &BScn) -> usize {
        gen::size(scn)
    }
    fn to_json(&self, scn: &BScn) -> Json {
        scn_to_json(scn)
    }
    fn from_json(&self, j: &Json) -> Result<BScn, String> {
        scn_from_json(j)
    }
    fn components_real(&self) -> Vec<&'static str> {
        vec![
            "bevy_mina: AnimationPlugin, Animator, animate, AnimationSelector, select_animation, AnimationChain, chain_animations, AnimationStateChanged",
            "mina / mina_core / mina_macros (remote derive(Animate) proxy, timelines, merged timelines)",
            "bevy_app::App::update, bevy_ecs schedules, change detection, Events double buffering, SingleThreadedExecutor",
            "bevy_time::Time (advanced through Time::update_with_instant)",
        ]
    }
    fn components_simulated(&self) -> Vec<&'static str> {
        vec![
            "wall clock (TimePlugin replaced by hand-driven Time::update_with_instant)",
            "frame pacer and fault injector (zero frames, hitches, suspends, boundary landings)",
            "user (selector key assignments) and operator (enable/disable, reset, set_timeline) between frames",
            "system order: plugin registration order and the two linearizations of chain/select (verif hook)",
            "no renderer, window, asset or input code runs",
        ]
    }
    fn rule(&self, property: &str) -> String {
        let common = "Each run builds a real App (AnimationPlugin<Target>, optionally a selector with 3-4 keys, a chain, a second animated component type, one of 12 system-order variants) and drives <=64 frames with seeded deltas and between-frame operations; ";
        let specific = match property {
            "C18" => "evaluation = one frame checked against the per-frame reference clauses; non-trivial = a frame with a state change, a disabled animator, a re-target or an injected fault; distinct = (state before, state after, enabled, delta class, re-targeted, merged size, delayed?) tuples",
            "C19" => "evaluation = one frame; non-trivial = a frame with a key assignment, a re-target, a key change or a pending chain step; distinct = (state before/after, re-targeted, user changed key, same key re-assigned, key changed in frame, chain pending, order variant, second animator, timeline present) tuples",
            "C08" => "evaluation = one frame with the un-animated-content invariants; distinct = (state, timeline present, re-targeted, enabled) tuples",
            _ => "evaluation = one frame under catch_unwind with finiteness checks; distinct = (state before/after, fault kind, delta class) tuples",
        };
        format!("{common}{specific}")
    }
    fn assumptions(&self, _property: &str) -> Vec<String> {
        vec![
            "Bevy schedules are forced to ExecutorKind::SingleThreaded; the order of systems the plugin leaves unordered is varied through registration order and the verif-hooks ordered registration".into(),
            "not generated: removing the target component, writing timeline_position by hand, chain self-loops, set_timeline without reset while Ended".into(),
            "the selector's last acted-on key is read through the verif-hooks accessor to know in which frame a key change took effect".into(),
        ]
    }
    fn default_runs(&self, property: &str, tier: Tier) -> u64 {
        let quick = if property == "C20" { 100_000 } else { 250_000 };
        match tier {
            Tier::Quick => quick,
            Tier::Thorough => quick * 40,
        }
    }
    fn abstract_transitions_possible(&self, _property: &str) -> u64 {
        4 * 4 * 2 * 5 * 2
    }
    fn extra_evidence(&self, _property: &str) -> Vec<(String, Json)> {
        vec![("declared_system_order".to_string(), declared_order_report())]
    }
}

fn main() {
    std::process::exit(main_cli(&BevyEngine));
}
