//! The simulated Bevy world: component types, scenario data, JSON, and construction of a real
//! `App` with the real `AnimationPlugin`, a hand-driven `Time` and single-threaded executors.

use bevy::ecs::schedule::ExecutorKind;
use bevy::prelude::*;
use bevy_mina::prelude::*;
use mina::prelude::*;
use simkit::json::Json;
use simmodel::*;
use std::time::{Duration, Instant};

pub const EXTRA_SENTINEL: u32 = 0x5EED_F00D;
pub const EXTRA_F_SENTINEL: f32 = -1234.5;

/// Target component: four animated fields (through the remote proxy) and two fields the proxy
/// does not list.
#[derive(Component, Clone, Debug, Default, PartialEq)]
pub struct Target {
    pub a: f32,
    pub b: f32,
    pub n: i32,
    pub k: u8,
    pub extra: u32,
    pub extra_f: f32,
}

#[derive(Animate)]
#[animate(remote = "Target")]
#[allow(dead_code)]
pub struct TargetProxy {
    a: f32,
    b: f32,
    n: i32,
    k: u8,
}

/// Second animated component type (local derive, every field animated).
#[derive(Animate, Component, Clone, Debug, Default, PartialEq)]
pub struct Other {
    pub x: f32,
}

/// Component type that is never animated (no plugin, no animator).
#[derive(Component, Clone, Debug, Default, PartialEq)]
pub struct Bystander {
    pub v: f32,
}

pub type Key = u8;

pub fn target_of(v: &Vals) -> Target {
    Target {
        a: v.a,
        b: v.b,
        n: v.n,
        k: v.k,
        extra: EXTRA_SENTINEL,
        extra_f: EXTRA_F_SENTINEL,
    }
}

pub fn vals_of(t: &Target) -> Vals {
    Vals {
        a: t.a,
        b: t.b,
        n: t.n,
        k: t.k,
        tag: t.extra,
    }
}

pub fn build_target_tl(spec: &TlSpec) -> TargetTimeline {
    let mut cfg = TargetProxy::timeline()
        .duration_seconds(spec.duration)
        .delay_seconds(spec.delay)
        .default_easing(easing_of(spec.easing))
        .repeat(spec.repeat.to_real())
        .reverse(spec.reverse);
    for kf in &spec.kfs {
        let mut b = if kf.via_from {
            let v = Target {
                a: kf.a.unwrap_or_default(),
                b: kf.b.unwrap_or_default(),
                n: kf.n.unwrap_or_default(),
                k: kf.k.unwrap_or_default(),
                extra: 0x0BAD_F00D,
                extra_f: 777.0,
            };
            TargetProxy::keyframe_from(&v, kf.pos)
        } else {
            let mut b = TargetProxy::keyframe(kf.pos);
            if let Some(v) = kf.a {
                b = b.a(v);
            }
            if let Some(v) = kf.b {
                b = b.b(v);
            }
            if let Some(v) = kf.n {
                b = b.n(v);
            }
            if let Some(v) = kf.k {
                b = b.k(v);
            }
            b
        };
        if let Some(e) = kf.easing {
            b = b.easing(easing_of(e));
        }
        cfg = cfg.keyframe(b);
    }
    TimelineBuilder::build(cfg)
}

pub fn build_target_merged(spec: &MergedSpec) -> MergedTimeline<TargetTimeline> {
    MergedTimeline::of(spec.parts.iter().map(build_target_tl))
}

/// Timing-only specification of the second animator's timeline (x: 0 -> 1).
#[derive(Clone, Debug, PartialEq)]
pub struct OtherSpec {
    pub duration: f32,
    pub delay: f32,
    pub repeat: Rep,
}

pub fn build_other_tl(s: &OtherSpec) -> OtherTimeline {
    TimelineBuilder::build(
        Other::timeline()
            .duration_seconds(s.duration)
            .delay_seconds(s.delay)
            .repeat(s.repeat.to_real())
            .keyframe(Other::keyframe(0.0).x(0.0))
            .keyframe(Other::keyframe(1.0).x(1.0)),
    )
}

/// System order of this run. The plugin declares only chain -> animate<Target> and
/// select -> animate<Target>; every linear extension of that partial order over the systems
/// present is legal, and the simulator picks one per run and pins it (verif hook).
#[derive(Clone, Debug, PartialEq)]
pub struct Order {
    /// Add `AnimationPlugin::<Other>` before `AnimationPlugin::<Target>`.
    pub other_plugin_first: bool,
    /// Register the key systems before adding the plugin for `Target`.
    pub register_before_plugin: bool,
    /// The pinned total order, as system names: "chain", "select", "animate", "animate_other".
    pub sequence: Vec<&'static str>,
}

pub const SYSTEM_NAMES: [&str; 4] = ["chain", "select", "animate", "animate_other"];

pub fn system_static(s: &str) -> &'static str {
    SYSTEM_NAMES.iter().copied().find(|n| *n == s).unwrap_or("animate")
}

/// All linear extensions of the partial order the plugin declares over the systems present.
///
/// The candidates are the permutations that keep `chain` and `select` before `animate` (what
/// `register_animation_key` documents; its loss is reported by `declared_order_violation`). Which
/// of them are linear extensions of what the plugin *actually* declares is asked of bevy itself,
/// once per process: a candidate whose pinning makes bevy's schedule builder report a dependency
/// cycle contradicts a constraint the plugin declares (say, a registration that additionally puts
/// the chain system before the selection system) and is not a schedule bevy could ever pick, so it
/// is not simulated. On a registration that declares nothing beyond the documented constraints
/// every candidate survives and the list is what it always was.
pub fn legal_sequences(selector: bool, second: bool) -> Vec<Vec<&'static str>> {
    use std::sync::OnceLock;
    static CACHE: [OnceLock<Vec<Vec<&'static str>>>; 4] =
        [OnceLock::new(), OnceLock::new(), OnceLock::new(), OnceLock::new()];
    CACHE[(selector as usize) * 2 + second as usize]
        .get_or_init(|| {
            let candidates = candidate_sequences(selector, second);
            let buildable: Vec<Vec<&'static str>> = candidates
                .iter()
                .filter(|seq| sequence_is_buildable(selector, second, seq))
                .cloned()
                .collect();
            // nothing buildable: the plugin cannot run at all (it panics on its first frame for a
            // reason of its own); keep the candidates so that the runs report that panic
            if buildable.is_empty() {
                candidates
            } else {
                buildable
            }
        })
        .clone()
}

/// True unless pinning `seq` makes bevy refuse the `Update` schedule (dependency cycle).
fn sequence_is_buildable(selector: bool, second: bool, seq: &[&'static str]) -> bool {
    let run = || {
        let mut app = App::new();
        let base = Instant::now();
        let mut time = Time::new(base);
        time.update_with_instant(base);
        app.insert_resource(time);
        app.add_plugins(AnimationPlugin::<Target>::new());
        if second {
            app.add_plugins(AnimationPlugin::<Other>::new());
        }
        if selector {
            app.register_animation_key::<Target, Key>();
        }
        let seq: Vec<bevy_mina::VerifSystem> = seq
            .iter()
            .map(|n| match *n {
                "chain" => bevy_mina::VerifSystem::Chain,
                "select" => bevy_mina::VerifSystem::Select,
                "animate_other" => bevy_mina::VerifSystem::AnimateOther,
                _ => bevy_mina::VerifSystem::Animate,
            })
            .collect();
        bevy_mina::verif_pin_system_order::<Target, Key, Other>(&mut app, &seq);
        single_threaded(&mut app);
        app.update();
    };
    match simkit::panic::catch(run) {
        Ok(()) => true,
        Err(p) => !(p.message.contains("cycle") || p.message.contains("initializing schedule")),
    }
}

fn candidate_sequences(selector: bool, second: bool) -> Vec<Vec<&'static str>> {
    let mut present: Vec<&'static str> = vec!["animate"];
    if selector {
        present.push("chain");
        present.push("select");
    }
    if second {
        present.push("animate_other");
    }
    let mut out = Vec::new();
    fn permute(rest: &mut Vec<&'static str>, cur: &mut Vec<&'static str>, out: &mut Vec<Vec<&'static str>>) {
        if rest.is_empty() {
            let pos = |n: &str| cur.iter().position(|x| *x == n);
            let ok = match (pos("chain"), pos("select"), pos("animate")) {
                (Some(c), Some(s), Some(a)) => c < a && s < a,
                _ => true,
            };
            if ok {
                out.push(cur.clone());
            }
            return;
        }
        for i in 0..rest.len() {
            let x = rest.remove(i);
            cur.push(x);
            permute(rest, cur, out);
            cur.pop();
            rest.insert(i, x);
        }
    }
    present.sort();
    permute(&mut present, &mut Vec::new(), &mut out);
    out
}

#[derive(Clone, Debug, PartialEq)]
pub struct Cfg {
    /// Timeline pool: selector key i plays `tls[keys[i]]`; direct animators are (re)targeted
    /// with entries of this pool.
    pub tls: Vec<MergedSpec>,
    pub selector: bool,
    /// key -> index into `tls`, or None for a key without a timeline
    pub keys: Vec<Option<usize>>,
    pub initial_key: Key,
    pub chain: Option<Vec<(Key, Key)>>,
    /// Direct mode: initial timeline (index into `tls`) or none.
    pub initial_tl: Option<usize>,
    /// Direct mode: call `start_with(component)` on the timeline before handing it over.
    pub initial_start_with: bool,
    pub start_disabled: bool,
    /// Selector mode only: the selector (and chain) is not spawned with the entity but inserted
    /// later by a `BOp::InsertSelector` operation.
    pub selector_inserted_later: bool,
    /// Selector mode only: the animator is created with `with_timeline(tls[initial_tl])` instead
    /// of `Animator::new()`, i.e. it may already be animating when the selector first acts.
    pub selector_animator_prebuilt: bool,
    pub second: Option<OtherSpec>,
    /// A second animated entity: plain `Animator<Target>` (no selector, no chain) playing
    /// `tls[index]`, spawned before or after the main entity.
    pub extra_entity: Option<(usize, bool)>,
    /// A crowd of identically configured plain animated entities `(timeline, how many)`: more
    /// animators of one type than a handful; they must all behave like one.
    pub crowd: Option<(usize, u8)>,
    /// The extra entity is not there from the start but spawned by a `SpawnExtra` operation.
    pub extra_spawned_late: bool,
    /// An orphan: an entity with an enabled `Animator<Target>` (playing `tls[index]`) but no
    /// `Target` component (yet); spawned before (`true`) or after the other entities. The plugin
    /// must simply skip it - every other entity behaves as if it were not there.
    pub orphan: Option<(usize, bool)>,
    /// A mirror entity: configured exactly like the main entity and given exactly the same
    /// operations; by symmetry it must be indistinguishable from the main entity in every frame.
    /// `Some(true)` = spawned before the main entity.
    pub mirror: Option<bool>,
    /// A lone animator of the *second* component type in a world that holds no component of that
    /// type at all (only generated when `second` is None): `Animator<Other>` playing a 0 -> 1
    /// timeline on an entity without `Other`; the component is inserted before frame
    /// `insert_component_at`, or never. Every enabled animator keeps time and announces its state
    /// changes, whether or not anything of its component type exists.
    pub lone_other: Option<LoneOther>,
    /// A side entity assembled in the other order: `Target` and an `AnimationSelector` (no chain)
    /// first, the `Animator<Target>` only before frame `insert_at` (>= 1); the user then
    /// re-assigns the selector's current key before the frames in `touch_at`. The key never
    /// changes, so nothing may ever restart: the animator plays what it was built with.
    pub late_animator: Option<LateAnimator>,
    pub order: Order,
    pub initial: Vals,
    pub grid: bool,
}

#[derive(Clone, Debug, PartialEq)]
pub struct LoneOther {
    pub spec: OtherSpec,
    pub insert_component_at: Option<usize>,
}

#[derive(Clone, Debug, PartialEq)]
pub struct LateAnimator {
    /// timeline the animator is built with (index into `tls`), None = `Animator::new()`
    pub tl: Option<usize>,
    pub insert_at: usize,
    pub touch_at: Vec<usize>,
}

impl Cfg {
    /// Is `AnimationPlugin::<Other>` part of the app?
    pub fn other_plugin(&self) -> bool {
        self.second.is_some() || self.lone_other.is_some()
    }
}

#[derive(Clone, Debug, PartialEq)]
pub enum BOp {
    SetKey(Key),
    Enable(bool),
    Reset,
    SetTimeline { tl: usize, reset: bool, start_with: bool },
    /// Spawn the extra plain animated entity now (when the configuration spawns it late).
    SpawnExtra,
    /// Despawn the extra plain animated entity.
    DespawnExtra,
    /// Remove / (re-)insert the `AnimationChain` component of the selector entity at run time.
    RemoveChain,
    InsertChain,
    /// Insert the `AnimationSelector` (and chain) now - used when the configuration says the
    /// selector is attached to an already existing, possibly already animating entity
    InsertSelector,
    /// The extra plain entity loses / regains its `Target` component while its animator runs on
    /// (the animator keeps time and announces state changes; nothing else is disturbed), or has
    /// its `Animator` replaced by a new one playing `tls[index]` (an `insert` over the old one).
    ExtraRemoveTarget,
    ExtraInsertTarget,
    ExtraReplaceAnimator(usize),
    /// Assign the public `timeline_position` directly ("seek"; documented: it does not change the
    /// state). `eighths_of_total`: position = total x n/8 (n may exceed 8; for an infinite timeline
    /// the total of one cycle plus the delay is used); `astronomical`: 1 = `Duration::MAX`,
    /// 2 = one nanosecond less, 3 = 50 ms less, 4 = 1e15 s.
    Seek { eighths_of_total: u32, astronomical: u8 },
    /// Remove the `AnimationSelector` component (the chain component stays): whatever animation
    /// it started keeps running. A later `InsertSelector` attaches a fresh one.
    RemoveSelector,
    /// Edit the selector's public `timelines` map at run time: give `key` the timeline
    /// `tls[index]`, or remove its timeline. Never affects the animation in progress; the next
    /// change *to* that key picks the edited entry up.
    EditTimelines { key: Key, tl: Option<usize> },
    /// `Time::pause()` / `Time::unpause()`: while paused the app clock's delta is zero although
    /// wall time passes
    PauseTime(bool),
    /// `Time::set_relative_speed`: 0 = half speed, 1 = normal, 2 = double speed
    TimeSpeed(u8),
}

#[derive(Clone, Debug, PartialEq)]
pub struct Frame {
    pub ops: Vec<BOp>,
    pub delta_ns: u64,
    pub fault: &'static str,
}

#[derive(Clone, Debug, PartialEq)]
pub struct BScn {
    pub cfg: Cfg,
    pub frames: Vec<Frame>,
}

pub const FAULTS: [&str; 14] = [
    "none", "jitter", "zero_frame", "hitch", "suspend", "land_on_boundary", "event_burst",
    "duplicate_event", "event_after_end", "toggle_enabled", "reset", "retarget", "app_clock", "seek",
];

pub fn fault_static(s: &str) -> &'static str {
    FAULTS.iter().copied().find(|f| *f == s).unwrap_or("none")
}

// ---- JSON -------------------------------------------------------------------------------------

fn other_to_json(o: &OtherSpec) -> Json {
    Json::obj()
        .set("duration", simkit::json::f32_to_json(o.duration))
        .set("delay", simkit::json::f32_to_json(o.delay))
        .set("repeat", o.repeat.to_json())
}

fn other_from_json(j: &Json) -> Result<OtherSpec, String> {
    Ok(OtherSpec {
        duration: simkit::json::f32_from_json(j.req("duration")?)?,
        delay: simkit::json::f32_from_json(j.req("delay")?)?,
        repeat: Rep::from_json(j.req("repeat")?)?,
    })
}

pub fn scn_to_json(s: &BScn) -> Json {
    let c = &s.cfg;
    let cfg = Json::obj()
        .set("grid_exact_eighths", c.grid)
        .set("timelines", Json::Arr(c.tls.iter().map(|m| m.to_json()).collect()))
        .set("selector", c.selector)
        .set(
            "keys",
            Json::Arr(
                c.keys
                    .iter()
                    .map(|k| match k {
                        Some(i) => Json::from(*i),
                        None => Json::Null,
                    })
                    .collect(),
            ),
        )
        .set("initial_key", c.initial_key)
        .set(
            "chain",
            match &c.chain {
                None => Json::Null,
                Some(pairs) => Json::Arr(
                    pairs
                        .iter()
                        .map(|(a, b)| Json::Arr(vec![Json::from(*a), Json::from(*b)]))
                        .collect(),
                ),
            },
        )
        .set("initial_timeline", c.initial_tl.map(Json::from).unwrap_or(Json::Null))
        .set("initial_start_with", c.initial_start_with)
        .set("start_disabled", c.start_disabled)
        .set("selector_inserted_later", c.selector_inserted_later)
        .set("selector_animator_prebuilt", c.selector_animator_prebuilt)
        .set("second_animator", c.second.as_ref().map(other_to_json).unwrap_or(Json::Null))
        .set("extra_entity_spawned_late", c.extra_spawned_late)
        .set(
            "crowd",
            match c.crowd {
                Some((tl, n)) => Json::Arr(vec![Json::from(tl), Json::from(n as usize)]),
                None => Json::Null,
            },
        )
        .set(
            "orphan_animator_without_target",
            match c.orphan {
                Some((tl, before)) => Json::obj().set("timeline", tl).set("spawned_first", before),
                None => Json::Null,
            },
        )
        .set(
            "lone_animator_of_second_type",
            match &c.lone_other {
                Some(l) => Json::obj().set("timeline", other_to_json(&l.spec)).set(
                    "component_inserted_before_frame",
                    l.insert_component_at.map(Json::from).unwrap_or(Json::Null),
                ),
                None => Json::Null,
            },
        )
        .set(
            "entity_whose_animator_arrives_late",
            match &c.late_animator {
                Some(l) => Json::obj()
                    .set("timeline", l.tl.map(Json::from).unwrap_or(Json::Null))
                    .set("animator_inserted_before_frame", l.insert_at)
                    .set(
                        "current_key_reassigned_before_frames",
                        Json::Arr(l.touch_at.iter().map(|f| Json::from(*f)).collect()),
                    ),
                None => Json::Null,
            },
        )
        .set(
            "mirror_entity_spawned_before_main",
            match c.mirror {
                Some(b) => Json::Bool(b),
                None => Json::Null,
            },
        )
        .set(
            "extra_plain_entity",
            match c.extra_entity {
                Some((tl, before)) => Json::obj().set("timeline", tl).set("spawned_before_main", before),
                None => Json::Null,
            },
        )
        .set(
            "order",
            Json::obj()
                .set("other_plugin_first", c.order.other_plugin_first)
                .set("register_before_plugin", c.order.register_before_plugin)
                .set(
                    "pinned_system_sequence",
                    Json::Arr(c.order.sequence.iter().map(|s| Json::from(*s)).collect()),
                ),
        )
        .set("initial_component", vals_to_json(&c.initial));
    let frames = s
        .frames
        .iter()
        .map(|f| {
            let ops = f
                .ops
                .iter()
                .map(|op| match op {
                    BOp::SetKey(k) => Json::obj().set("set_key", *k),
                    BOp::Enable(b) => Json::obj().set("enable", *b),
                    BOp::Reset => Json::obj().set("reset", true),
                    BOp::SetTimeline { tl, reset, start_with } => Json::obj()
                        .set("set_timeline", *tl)
                        .set("then_reset", *reset)
                        .set("start_with_component", *start_with),
                    BOp::InsertSelector => Json::obj().set("insert_selector", true),
                    BOp::RemoveSelector => Json::obj().set("remove_selector", true),
                    BOp::Seek { eighths_of_total, astronomical } => Json::obj()
                        .set("seek_to_eighths_of_total", *eighths_of_total)
                        .set("astronomical", *astronomical),
                    BOp::ExtraRemoveTarget => Json::obj().set("extra_entity_remove_component", true),
                    BOp::ExtraInsertTarget => Json::obj().set("extra_entity_insert_component", true),
                    BOp::ExtraReplaceAnimator(tl) => Json::obj().set("extra_entity_replace_animator", *tl),
                    BOp::EditTimelines { key, tl } => Json::obj()
                        .set("edit_selector_timelines_key", *key)
                        .set("timeline", tl.map(Json::from).unwrap_or(Json::Null)),
                    BOp::SpawnExtra => Json::obj().set("spawn_extra_entity", true),
                    BOp::DespawnExtra => Json::obj().set("despawn_extra_entity", true),
                    BOp::RemoveChain => Json::obj().set("remove_chain", true),
                    BOp::InsertChain => Json::obj().set("insert_chain", true),
                    BOp::PauseTime(b) => Json::obj().set("pause_app_clock", *b),
                    BOp::TimeSpeed(x) => Json::obj().set("app_clock_speed", *x),
                })
                .collect::<Vec<_>>();
            let mut j = Json::obj().set("delta_ns", f.delta_ns);
            if !ops.is_empty() {
                j.put("ops_before_frame", Json::Arr(ops));
            }
            if f.fault != "none" {
                j.put("fault", f.fault);
            }
            j
        })
        .collect();
    Json::obj().set("config", cfg).set("frames", Json::Arr(frames))
}

pub fn scn_from_json(j: &Json) -> Result<BScn, String> {
    let c = j.req("config")?;
    let o = c.req("order")?;
    let cfg = Cfg {
        grid: c.req("grid_exact_eighths")?.as_bool()?,
        tls: c
            .req("timelines")?
            .as_arr()?
            .iter()
            .map(MergedSpec::from_json)
            .collect::<Result<_, _>>()?,
        selector: c.req("selector")?.as_bool()?,
        keys: c
            .req("keys")?
            .as_arr()?
            .iter()
            .map(|k| {
                if k.is_null() {
                    Ok(None)
                } else {
                    k.as_i64().map(|v| Some(v as usize))
                }
            })
            .collect::<Result<_, String>>()?,
        initial_key: c.req("initial_key")?.as_i64()? as u8,
        chain: match c.req("chain")? {
            Json::Null => None,
            arr => Some(
                arr.as_arr()?
                    .iter()
                    .map(|p| {
                        let p = p.as_arr()?;
                        Ok((p[0].as_i64()? as u8, p[1].as_i64()? as u8))
                    })
                    .collect::<Result<_, String>>()?,
            ),
        },
        initial_tl: match c.req("initial_timeline")? {
            Json::Null => None,
            v => Some(v.as_i64()? as usize),
        },
        initial_start_with: c.req("initial_start_with")?.as_bool()?,
        start_disabled: c.req("start_disabled")?.as_bool()?,
        selector_inserted_later: match c.get("selector_inserted_later") {
            Some(v) => v.as_bool()?,
            None => false,
        },
        selector_animator_prebuilt: match c.get("selector_animator_prebuilt") {
            Some(v) => v.as_bool()?,
            None => false,
        },
        second: match c.req("second_animator")? {
            Json::Null => None,
            v => Some(other_from_json(v)?),
        },
        extra_spawned_late: match c.get("extra_entity_spawned_late") {
            Some(v) => v.as_bool()?,
            None => false,
        },
        orphan: match c.get("orphan_animator_without_target") {
            None | Some(Json::Null) => None,
            Some(v) => Some((
                v.req("timeline")?.as_i64()? as usize,
                v.req("spawned_first")?.as_bool()?,
            )),
        },
        lone_other: match c.get("lone_animator_of_second_type") {
            None | Some(Json::Null) => None,
            Some(v) => Some(LoneOther {
                spec: other_from_json(v.req("timeline")?)?,
                insert_component_at: match v.req("component_inserted_before_frame")? {
                    Json::Null => None,
                    f => Some(f.as_i64()? as usize),
                },
            }),
        },
        late_animator: match c.get("entity_whose_animator_arrives_late") {
            None | Some(Json::Null) => None,
            Some(v) => Some(LateAnimator {
                tl: match v.req("timeline")? {
                    Json::Null => None,
                    t => Some(t.as_i64()? as usize),
                },
                insert_at: v.req("animator_inserted_before_frame")?.as_i64()? as usize,
                touch_at: v
                    .req("current_key_reassigned_before_frames")?
                    .as_arr()?
                    .iter()
                    .map(|f| Ok(f.as_i64()? as usize))
                    .collect::<Result<_, String>>()?,
            }),
        },
        mirror: match c.get("mirror_entity_spawned_before_main") {
            None | Some(Json::Null) => None,
            Some(v) => Some(v.as_bool()?),
        },
        crowd: match c.get("crowd") {
            None | Some(Json::Null) => None,
            Some(v) => {
                let a = v.as_arr()?;
                if a.len() != 2 {
                    return Err("crowd: [timeline, count] expected".into());
                }
                Some((a[0].as_i64()? as usize, a[1].as_i64()? as u8))
            }
        },
        extra_entity: match c.get("extra_plain_entity") {
            None | Some(Json::Null) => None,
            Some(v) => Some((
                v.req("timeline")?.as_i64()? as usize,
                v.req("spawned_before_main")?.as_bool()?,
            )),
        },
        order: Order {
            other_plugin_first: o.req("other_plugin_first")?.as_bool()?,
            register_before_plugin: o.req("register_before_plugin")?.as_bool()?,
            sequence: o
                .req("pinned_system_sequence")?
                .as_arr()?
                .iter()
                .map(|v| v.as_str().map(system_static))
                .collect::<Result<_, _>>()?,
        },
        initial: vals_from_json(c.req("initial_component")?)?,
    };
    let mut frames = Vec::new();
    for f in j.req("frames")?.as_arr()? {
        let mut ops = Vec::new();
        if let Some(list) = f.get("ops_before_frame") {
            for op in list.as_arr()? {
                if let Some(k) = op.get("set_key") {
                    ops.push(BOp::SetKey(k.as_i64()? as u8));
                } else if let Some(b) = op.get("enable") {
                    ops.push(BOp::Enable(b.as_bool()?));
                } else if op.get("insert_selector").is_some() {
                    ops.push(BOp::InsertSelector);
                } else if op.get("remove_selector").is_some() {
                    ops.push(BOp::RemoveSelector);
                } else if let Some(n) = op.get("seek_to_eighths_of_total") {
                    ops.push(BOp::Seek {
                        eighths_of_total: n.as_i64()? as u32,
                        astronomical: op.req("astronomical")?.as_i64()? as u8,
                    });
                } else if op.get("extra_entity_remove_component").is_some() {
                    ops.push(BOp::ExtraRemoveTarget);
                } else if op.get("extra_entity_insert_component").is_some() {
                    ops.push(BOp::ExtraInsertTarget);
                } else if let Some(tl) = op.get("extra_entity_replace_animator") {
                    ops.push(BOp::ExtraReplaceAnimator(tl.as_i64()? as usize));
                } else if let Some(k) = op.get("edit_selector_timelines_key") {
                    ops.push(BOp::EditTimelines {
                        key: k.as_i64()? as u8,
                        tl: match op.req("timeline")? {
                            Json::Null => None,
                            t => Some(t.as_i64()? as usize),
                        },
                    });
                } else if op.get("spawn_extra_entity").is_some() {
                    ops.push(BOp::SpawnExtra);
                } else if op.get("despawn_extra_entity").is_some() {
                    ops.push(BOp::DespawnExtra);
                } else if op.get("remove_chain").is_some() {
                    ops.push(BOp::RemoveChain);
                } else if op.get("insert_chain").is_some() {
                    ops.push(BOp::InsertChain);
                } else if let Some(b) = op.get("pause_app_clock") {
                    ops.push(BOp::PauseTime(b.as_bool()?));
                } else if let Some(x) = op.get("app_clock_speed") {
                    ops.push(BOp::TimeSpeed(x.as_i64()? as u8));
                } else if op.get("reset").is_some() {
                    ops.push(BOp::Reset);
                } else if let Some(tl) = op.get("set_timeline") {
                    ops.push(BOp::SetTimeline {
                        tl: tl.as_i64()? as usize,
                        reset: op.req("then_reset")?.as_bool()?,
                        start_with: op.req("start_with_component")?.as_bool()?,
                    });
                } else {
                    return Err("bad op".into());
                }
            }
        }
        frames.push(Frame {
            ops,
            delta_ns: f.req("delta_ns")?.as_i64()? as u64,
            fault: fault_static(f.get("fault").and_then(|v| v.as_str().ok()).unwrap_or("none")),
        });
    }
    Ok(BScn { cfg, frames })
}

// ---- the world ---------------------------------------------------------------------------------

pub struct SimWorld {
    pub app: App,
    pub entity: Entity,
    pub extra: Option<Entity>,
    pub crowd: Vec<Entity>,
    pub mirror: Option<Entity>,
    pub bystander: Entity,
    pub lone_other: Option<Entity>,
    pub late_animator: Option<Entity>,
    pub reader: bevy::ecs::event::ManualEventReader<AnimationStateChanged>,
    pub now: Instant,
}

fn single_threaded(app: &mut App) {
    // Every schedule of the main loop runs on bevy's own single-threaded executor, so that the
    // order of systems is a pure function of the schedule graph (no thread pool decides anything).
    macro_rules! st {
        ($($label:expr),*) => {
            $( app.edit_schedule($label, |s| { s.set_executor_kind(ExecutorKind::SingleThreaded); }); )*
        };
    }
    st!(
        Main, PreStartup, Startup, PostStartup, First, PreUpdate, StateTransition,
        bevy::app::RunFixedUpdateLoop, FixedUpdate, Update, PostUpdate, Last
    );
}

/// The executor kind actually in force for the `Update` schedule (recorded as evidence).
pub fn update_is_single_threaded(app: &App) -> bool {
    app.get_schedule(Update)
        .map(|s| s.get_executor_kind() == ExecutorKind::SingleThreaded)
        .unwrap_or(false)
}

/// Attaches the selector (and chain) described by the configuration to an entity.
pub fn insert_selector(cfg: &Cfg, e: &mut bevy::ecs::world::EntityMut) {
    let mut b = AnimationSelectorBuilder::<Key, Target>::new().initial_key(cfg.initial_key);
    for (k, tl) in cfg.keys.iter().enumerate() {
        if let Some(i) = tl {
            // a key registered twice keeps the most recently added timeline: odd keys first get
            // a decoy that animates every property
            if k % 2 == 1 {
                b = b.add(
                    k as Key,
                    TimelineBuilder::build(
                        TargetProxy::timeline()
                            .duration_seconds(7.0)
                            .keyframe(TargetProxy::keyframe(0.0).a(-777.0).b(777.0).n(-777).k(77))
                            .keyframe(TargetProxy::keyframe(1.0).a(555.0).b(-555.0).n(555).k(55)),
                    ),
                );
            }
            // alternate between plain and merged timelines in the selector map
            if cfg.tls[*i].parts.len() == 1 && k % 2 == 0 {
                b = b.add(k as Key, build_target_tl(&cfg.tls[*i].parts[0]));
            } else {
                b = b.add(k as Key, build_target_merged(&cfg.tls[*i]));
            }
        }
    }
    if cfg.keys.len() == 4 {
        // the plain constructor instead of the builder
        let built = b.build();
        e.insert(AnimationSelector::<Key, Target>::new(built.timelines, built.timeline_key));
    } else {
        e.insert(b.build());
    }
    insert_chain_varied(cfg, e);
}

/// Only the selector, never a chain.
pub fn insert_selector_only(cfg: &Cfg, e: &mut bevy::ecs::world::EntityMut) {
    let mut without_chain = cfg.clone();
    without_chain.chain = None;
    insert_selector(&without_chain, e);
}

fn insert_chain_varied(cfg: &Cfg, e: &mut bevy::ecs::world::EntityMut) {
    if let Some(pairs) = &cfg.chain {
        // every public way of building a chain is used, depending on its shape
        if pairs.len() == 1 && pairs[0].1 == Key::default() {
            e.insert(AnimationChain::<Key>::reset_after(pairs[0].0));
        } else if pairs.len() % 2 == 0 {
            let mut chain = AnimationChain::<Key>::new();
            for (from, to) in pairs {
                chain.next_keys.insert(*from, *to);
            }
            e.insert(chain);
        } else {
            let mut cb = AnimationChainBuilder::<Key>::new();
            for (from, to) in pairs {
                cb = cb.add(*from, *to);
            }
            e.insert(cb.build());
        }
    }
}

/// Attaches only the chain component described by the configuration.
pub fn insert_chain(cfg: &Cfg, e: &mut bevy::ecs::world::EntityMut) {
    if let Some(pairs) = &cfg.chain {
        let mut cb = AnimationChainBuilder::<Key>::new();
        for (from, to) in pairs {
            cb = cb.add(*from, *to);
        }
        e.insert(cb.build());
    }
}

pub fn spawn_extra_entity(cfg: &Cfg, app: &mut App) -> Option<Entity> {
    cfg.extra_entity.map(|(tl, _)| {
        app.world
            .spawn((
                target_of(&cfg.initial),
                Animator::<Target>::with_timeline(build_target_merged(&cfg.tls[tl])),
            ))
            .id()
    })
}

pub fn build_world(cfg: &Cfg) -> SimWorld {
    let mut app = App::new();
    let base = Instant::now();
    let mut time = Time::new(base);
    // prime: the first update of a fresh Time only records the instant and leaves delta at zero
    time.update_with_instant(base);
    app.insert_resource(time);

    // the real registration entry point is always used; the order is pinned afterwards
    let register_keys = |app: &mut App| {
        app.register_animation_key::<Target, Key>();
    };
    if cfg.selector && cfg.order.register_before_plugin {
        // `.before(animate::<T>)` needs the event type to exist; the plugin adds it, so add the
        // event first exactly like a user who registers keys before the plugin would have to.
        app.add_event::<AnimationStateChanged>();
        register_keys(&mut app);
    }
    if cfg.order.other_plugin_first && cfg.other_plugin() {
        app.add_plugins(AnimationPlugin::<Other>::new());
    }
    app.add_plugins(AnimationPlugin::<Target>::new());
    if !cfg.order.other_plugin_first && cfg.other_plugin() {
        app.add_plugins(AnimationPlugin::<Other>::new());
    }
    if cfg.selector && !cfg.order.register_before_plugin {
        register_keys(&mut app);
    }
    // pin the order of the systems the plugin leaves unordered (otherwise bevy's per-process
    // random hash seeds decide it)
    let seq: Vec<bevy_mina::VerifSystem> = cfg
        .order
        .sequence
        .iter()
        .map(|n| match *n {
            "chain" => bevy_mina::VerifSystem::Chain,
            "select" => bevy_mina::VerifSystem::Select,
            "animate_other" => bevy_mina::VerifSystem::AnimateOther,
            _ => bevy_mina::VerifSystem::Animate,
        })
        .collect();
    bevy_mina::verif_pin_system_order::<Target, Key, Other>(&mut app, &seq);
    single_threaded(&mut app);

    let component = target_of(&cfg.initial);
    let spawn_extra = |app: &mut App| -> Option<Entity> {
        cfg.extra_entity.map(|(tl, _)| {
            app.world
                .spawn((
                    target_of(&cfg.initial),
                    Animator::<Target>::with_timeline(build_target_merged(&cfg.tls[tl])),
                ))
                .id()
        })
    };
    let spawn_orphan = |app: &mut App| {
        if let Some((tl, _)) = cfg.orphan {
            // two archetypes: with and without an unrelated component
            app.world.spawn(Animator::<Target>::with_timeline(build_target_merged(&cfg.tls[tl])));
            app.world.spawn((
                Bystander { v: 1.0 },
                Animator::<Target>::with_timeline(build_target_merged(&cfg.tls[tl])),
            ));
            // and an enabled animator that has a target but no timeline (yet): it must simply
            // stay idle without disturbing the animators visited after it
            app.world.spawn((target_of(&cfg.initial), Animator::<Target>::new()));
        }
    };
    if matches!(cfg.orphan, Some((_, true))) {
        spawn_orphan(&mut app);
    }
    let mut extra = None;
    if matches!(cfg.extra_entity, Some((_, true))) && !cfg.extra_spawned_late {
        extra = spawn_extra(&mut app);
    }
    let spawn_main = |app: &mut App| -> Entity {
        let component = component.clone();
        let prebuilt = |component: &Target| match cfg.initial_tl {
            Some(i) => {
                let mut tl = build_target_merged(&cfg.tls[i]);
                if cfg.initial_start_with {
                    tl.start_with(component);
                }
                Animator::with_timeline(tl)
            }
            None => Animator::new(),
        };
        let mut animator: Animator<Target> = if cfg.selector && !cfg.selector_animator_prebuilt {
            if cfg.initial_key % 2 == 0 {
                Animator::new()
            } else {
                Animator::default()
            }
        } else {
            prebuilt(&component)
        };
        if cfg.start_disabled {
            animator = animator.as_disabled();
        }
        let mut e = app.world.spawn((component, animator));
        if cfg.selector && !cfg.selector_inserted_later {
            insert_selector(cfg, &mut e);
        }
        if let Some(o) = &cfg.second {
            e.insert((Other::default(), Animator::<Other>::with_timeline(build_other_tl(o))));
        }
        e.id()
    };
    let mut mirror = None;
    if cfg.mirror == Some(true) {
        mirror = Some(spawn_main(&mut app));
    }
    let entity = spawn_main(&mut app);
    if cfg.mirror == Some(false) {
        mirror = Some(spawn_main(&mut app));
    }
    if matches!(cfg.extra_entity, Some((_, false))) && !cfg.extra_spawned_late {
        extra = spawn_extra(&mut app);
    }
    if matches!(cfg.orphan, Some((_, false))) {
        spawn_orphan(&mut app);
    }
    let bystander = app
        .world
        .spawn((target_of(&cfg.initial), Bystander { v: 42.0 }))
        .id();
    let lone_other = cfg
        .lone_other
        .as_ref()
        .map(|l| app.world.spawn(Animator::<Other>::with_timeline(build_other_tl(&l.spec))).id());
    let late_animator = cfg.late_animator.as_ref().map(|_| {
        let mut e = app.world.spawn(target_of(&cfg.initial));
        insert_selector_only(cfg, &mut e);
        e.id()
    });
    // the crowd: spawned last, all alike
    let crowd: Vec<Entity> = match cfg.crowd {
        Some((tl, n)) => (0..n)
            .map(|_| {
                app.world
                    .spawn((
                        target_of(&cfg.initial),
                        Animator::<Target>::with_timeline(build_target_merged(&cfg.tls[tl])),
                    ))
                    .id()
            })
            .collect(),
        None => Vec::new(),
    };
    let reader = app
        .world
        .resource::<Events<AnimationStateChanged>>()
        .get_reader();
    SimWorld {
        app,
        entity,
        extra,
        crowd,
        mirror,
        bystander,
        lone_other,
        late_animator,
        reader,
        now: base,
    }
}

impl SimWorld {
    /// One frame: advance the hand-driven wall clock by `raw_delta`, run the real schedule, and
    /// return the frame's delta as the app clock (`Time::delta`) reports it - which differs from
    /// the wall-clock delta while the clock is paused or scaled.
    pub fn frame(&mut self, raw_delta: Duration) -> Duration {
        self.now += raw_delta;
        let now = self.now;
        let delta = {
            let mut time = self.app.world.resource_mut::<Time>();
            time.update_with_instant(now);
            time.delta()
        };
        self.app.update();
        delta
    }

    pub fn apply_time_op(&mut self, op: &BOp) {
        let mut time = self.app.world.resource_mut::<Time>();
        match op {
            BOp::PauseTime(true) => time.pause(),
            BOp::PauseTime(false) => time.unpause(),
            BOp::TimeSpeed(0) => time.set_relative_speed(0.5),
            BOp::TimeSpeed(2) => time.set_relative_speed(2.0),
            BOp::TimeSpeed(_) => time.set_relative_speed(1.0),
            _ => {}
        }
    }

    pub fn drain_events(&mut self) -> Vec<(Entity, AnimationState)> {
        let events = self.app.world.resource::<Events<AnimationStateChanged>>();
        self.reader
            .iter(events)
            .map(|e| (e.entity, e.state))
            .collect()
    }
}

/// What the plugin itself declares about system order: builds an App with the regular
/// registration only (nothing pinned), lets bevy build the `Update` schedule and reads the graph:
/// dependency edges among mina's systems and the pairs bevy reports as conflicting (ambiguous).
/// Also asserts that every sequence the simulator pins is a linear extension of those edges.
pub fn declared_order_report() -> Json {
    let mut app = App::new();
    let base = Instant::now();
    let mut time = Time::new(base);
    time.update_with_instant(base);
    app.insert_resource(time);
    app.add_plugins(AnimationPlugin::<Target>::new());
    app.add_plugins(AnimationPlugin::<Other>::new());
    app.register_animation_key::<Target, Key>();
    let short = |name: &str| -> Option<&'static str> {
        if name.contains("chain_animations") {
            Some("chain")
        } else if name.contains("select_animation") {
            Some("select")
        } else if name.contains("animate<") && name.contains("Other") {
            Some("animate_other")
        } else if name.contains("animate<") {
            Some("animate")
        } else {
            None
        }
    };
    let mut names: Vec<(bevy::ecs::schedule::NodeId, &'static str)> = Vec::new();
    if let Some(s) = app.get_schedule(Update) {
        for (id, sys, _) in s.graph().systems() {
            if let Some(n) = short(&sys.name()) {
                names.push((id, n));
            }
        }
    }
    app.update();
    let name_of = |id: bevy::ecs::schedule::NodeId| names.iter().find(|(i, _)| *i == id).map(|(_, n)| *n);
    let mut edges: Vec<(String, String)> = Vec::new();
    let mut ambiguous: Vec<(String, String)> = Vec::new();
    if let Some(s) = app.get_schedule(Update) {
        let g = s.graph();
        // reachability through system-type sets: a declared `.before(animate::<T>)` is an edge to
        // the set; use bevy's flattened result instead: conflicting pairs are exactly the pairs
        // with a data conflict and no order between them
        for (a, b, _) in g.conflicting_systems() {
            if let (Some(x), Some(y)) = (name_of(*a), name_of(*b)) {
                let (x, y) = if x <= y { (x, y) } else { (y, x) };
                ambiguous.push((x.to_string(), y.to_string()));
            }
        }
        for (a, b, _) in g.dependency().graph().all_edges() {
            if let (Some(x), Some(y)) = (name_of(a), name_of(b)) {
                edges.push((x.to_string(), y.to_string()));
            }
        }
    }
    ambiguous.sort();
    ambiguous.dedup();
    edges.sort();
    edges.dedup();
    // every pinned sequence respects the declared constraints chain -> animate, select -> animate
    let mut extension_violations = 0;
    let all = legal_sequences(true, true);
    for seq in &all {
        let pos = |n: &str| seq.iter().position(|x| *x == n).unwrap();
        if !(pos("chain") < pos("animate") && pos("select") < pos("animate")) {
            extension_violations += 1;
        }
    }
    Json::obj()
        .set(
            "mina_systems_in_update",
            Json::Arr(names.iter().map(|(_, n)| Json::from(*n)).collect()),
        )
        .set(
            "direct_dependency_edges_between_mina_systems",
            Json::Arr(edges.iter().map(|(a, b)| Json::from(format!("{a} -> {b}"))).collect()),
        )
        .set(
            "pairs_bevy_reports_as_unordered_and_conflicting",
            Json::Arr(ambiguous.iter().map(|(a, b)| Json::from(format!("{a} <-> {b}"))).collect()),
        )
        .set("linearizations_the_simulator_pins", all.len())
        .set("linearizations_violating_declared_constraints", extension_violations)
}
