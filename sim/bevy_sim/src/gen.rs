//! Scenario generator for the Bevy world: swarm configuration, frame pacer, user process
//! (selector key assignments), operator process (enable/disable, reset, set_timeline) and fault
//! injector (zero frames, hitches longer than the whole animation, suspends, boundary landings,
//! bursts, duplicates, events right after an end).

use crate::world::*;
use simkit::rng::Rng;
use simmodel::gen::{gen_knobs, gen_merged, gen_vals};
use simmodel::oracle;
use simmodel::*;

fn ns_of_eighths(m: u64) -> u64 {
    m * 125_000_000
}

pub fn generate(rng: &mut Rng, property: &str, deep: bool) -> BScn {
    let extreme = property == "C20";
    let mut knobs = gen_knobs(rng, extreme);
    // Bevy positions are Durations; keep configurations moderate (no astronomical durations here)
    knobs.extreme = false;
    knobs.p_empty_merged = 0.0;
    let selector = match property {
        "C19" => true,
        "C18" => rng.chance(0.25),
        _ => rng.chance(0.5),
    };
    let n_tls = rng.range(1, 4) as usize;
    let mut tls: Vec<MergedSpec> = (0..n_tls).map(|_| gen_merged(rng, &knobs)).collect();
    // make ends reachable within a run: cap repeats and durations a little in most runs
    if rng.chance(0.8) {
        for m in tls.iter_mut() {
            for p in m.parts.iter_mut() {
                if let Rep::Times(n) = p.repeat {
                    if n > 3 {
                        p.repeat = Rep::Times(n % 3);
                    }
                }
                if knobs.grid {
                    p.duration = p.duration.min(4.0);
                    p.delay = p.delay.min(2.0);
                } else {
                    p.duration = p.duration.min(6.0);
                    p.delay = p.delay.min(3.0);
                }
            }
        }
    }
    let n_keys = rng.range(3, 4) as usize;
    // (rarely a selector whose map is empty: no key has a timeline)
    let empty_map = rng.chance(0.03);
    let keys: Vec<Option<usize>> = (0..n_keys)
        .map(|_| {
            if empty_map || rng.chance(0.2) {
                None
            } else {
                Some(rng.usize_below(n_tls))
            }
        })
        .collect();
    let chain = if selector && rng.chance(if property == "C19" { 0.75 } else { 0.4 }) {
        let mut pairs: Vec<(Key, Key)> = Vec::new();
        for from in 0..n_keys {
            if rng.chance(0.6) {
                // rarely a self loop ("when k ends, play k again"); otherwise another key
                let mut to = rng.usize_below(n_keys);
                if to == from && !rng.chance(0.3) {
                    to = (to + 1) % n_keys;
                }
                pairs.push((from as Key, to as Key));
            }
        }
        Some(pairs)
    } else {
        None
    };
    let second = if rng.chance(if property == "C19" { 0.4 } else { 0.15 }) {
        Some(OtherSpec {
            duration: if knobs.grid {
                rng.range(1, 16) as f32 / 8.0
            } else {
                (0.05 + rng.unit() * 2.0) as f32
            },
            delay: if rng.chance(0.3) {
                if knobs.grid {
                    rng.range(1, 8) as f32 / 8.0
                } else {
                    rng.unit() as f32
                }
            } else {
                0.0
            },
            repeat: *rng.pick(&[Rep::None, Rep::None, Rep::Times(1), Rep::Times(2)]),
        })
    } else {
        None
    };
    let lone_other = if second.is_none() && rng.chance(0.15) {
        Some(LoneOther {
            spec: OtherSpec {
                duration: if knobs.grid { rng.range(1, 16) as f32 / 8.0 } else { (0.05 + rng.unit() * 2.0) as f32 },
                delay: if rng.chance(0.4) {
                    if knobs.grid {
                        rng.range(1, 8) as f32 / 8.0
                    } else {
                        rng.unit() as f32
                    }
                } else {
                    0.0
                },
                repeat: *rng.pick(&[Rep::None, Rep::None, Rep::Times(1), Rep::Times(2)]),
            },
            insert_component_at: if rng.chance(0.5) { Some(rng.range(1, 6) as usize) } else { None },
        })
    } else {
        None
    };
    let late_animator = if selector && rng.chance(0.15) {
        let insert_at = rng.range(1, 6) as usize;
        let mut touch_at = Vec::new();
        for _ in 0..rng.range(1, 3) {
            // (later than the grace window in which the animator may still be taking over the
            // selector's key)
            touch_at.push(insert_at + 4 + rng.range(0, 10) as usize);
        }
        touch_at.sort();
        touch_at.dedup();
        Some(LateAnimator {
            tl: if rng.chance(0.75) { Some(rng.usize_below(n_tls)) } else { None },
            insert_at,
            touch_at,
        })
    } else {
        None
    };
    let initial_key_for_extra = rng.below(n_keys as u64) as Key;
    let initial_key_tl = keys[initial_key_for_extra as usize];
    let mut cfg = Cfg {
        grid: knobs.grid,
        selector,
        keys,
        initial_key: initial_key_for_extra,
        chain,
        initial_tl: if rng.chance(0.85) {
            Some(rng.usize_below(n_tls))
        } else {
            None
        },
        initial_start_with: rng.chance(0.3),
        start_disabled: rng.chance(0.1),
        selector_inserted_later: selector && rng.chance(0.15),
        selector_animator_prebuilt: selector && rng.chance(0.2),
        second: second.clone(),
        crowd: None,
        extra_entity: if rng.chance(if property == "C19" { 0.35 } else { 0.15 }) {
            // often the same timeline as the main entity starts with, so that both end together
            let same = if selector {
                initial_key_tl
            } else {
                None
            };
            Some((
                match same {
                    Some(i) if rng.chance(0.6) => i,
                    _ => rng.usize_below(n_tls),
                },
                rng.chance(0.5),
            ))
        } else {
            None
        },
        extra_spawned_late: rng.chance(0.3),
        orphan: if rng.chance(0.12) {
            Some((rng.usize_below(n_tls), rng.chance(0.5)))
        } else {
            None
        },
        mirror: if rng.chance(0.25) {
            Some(rng.chance(0.5))
        } else {
            None
        },
        lone_other: lone_other.clone(),
        late_animator,
        order: Order {
            other_plugin_first: rng.chance(0.5),
            register_before_plugin: rng.chance(0.3),
            sequence: {
                let all = legal_sequences(selector, second.is_some() || lone_other.is_some());
                all[rng.usize_below(all.len())].clone()
            },
        },
        initial: gen_vals(rng, &knobs),
        tls,
    };

    // ---- frames --------------------------------------------------------------------------------
    let fault_free = rng.below(8) == 0;
    let on = |rng: &mut Rng, p: f64| -> f64 {
        if fault_free {
            0.0
        } else if rng.chance(0.5) {
            p
        } else {
            0.0
        }
    };
    let p_zero = on(rng, 0.1);
    let p_hitch = on(rng, 0.1);
    let p_suspend = if extreme { on(rng, 0.05) } else { on(rng, 0.01) };
    let p_boundary = on(rng, 0.2);
    let p_run_out = on(rng, 0.04);
    let p_burst = on(rng, 0.2);
    let p_dup = on(rng, 0.2);
    let p_after_end = on(rng, 0.6);
    let operator = property != "C19";
    // (C19 runs disable / re-enable the animator only rarely)
    let p_toggle = if operator { on(rng, 0.06) } else { on(rng, 0.012) };
    let p_reset = if operator { on(rng, 0.06) } else { 0.0 };
    let p_retarget = if operator && !cfg.selector { on(rng, 0.08) } else { 0.0 };
    // the app clock may be paused or scaled (then Time::delta differs from the wall-clock delta)
    let p_clock = on(rng, 0.06);
    let mut clock_paused = false;
    let mut clock_speed = 1u8;
    let p_key: f64 = if cfg.selector { *rng.pick(&[0.05, 0.15, 0.3]) } else { 0.0 };
    let jitter = on(rng, 0.5);
    let period_ns: u64 = if cfg.grid {
        ns_of_eighths(*rng.pick(&[1u64, 1, 2, 4]))
    } else {
        *rng.pick(&[4_166_667u64, 16_666_667, 33_333_333, 100_000_000, 370_000_000])
    };
    let n_frames = if (deep && rng.chance(0.33)) || rng.chance(0.04) { rng.range(64, 240) as usize } else { rng.range(4, 64) as usize };

    // bookkeeping to aim faults (not the oracle): rough position of the Target animator
    let mut cur_tl: Option<usize> = if cfg.selector {
        cfg.keys[cfg.initial_key as usize]
    } else {
        cfg.initial_tl
    };
    let mut cur_key = cfg.initial_key;
    let mut pos_ns: u128 = 0;
    let mut enabled = !cfg.start_disabled;
    let mut ended = false;
    let mut just_ended = false;
    let mut frames = Vec::new();
    // late spawn / despawn of the extra entity, chain removed / re-inserted at run time
    let extra_spawn_at = if cfg.extra_entity.is_some() && cfg.extra_spawned_late {
        Some(rng.usize_below(n_frames.min(16)))
    } else {
        None
    };
    let extra_despawn_at = if cfg.extra_entity.is_some() && rng.chance(0.25) {
        Some(extra_spawn_at.unwrap_or(0) + 1 + rng.usize_below(24))
    } else {
        None
    };
    let p_chain_toggle = if cfg.selector && cfg.chain.is_some() && property == "C19" { on(rng, 0.05) } else { 0.0 };
    let mut chain_present = true;
    let insert_selector_at = if cfg.selector_inserted_later {
        Some(rng.usize_below(n_frames.min(12)))
    } else {
        None
    };
    // (when the animator is prebuilt, the insertion is moved to the frame right after its own
    // animation ended in half of the cases - decided below, when that frame is known)
    let mut insert_selector_at = insert_selector_at;
    let insert_after_end = cfg.selector_inserted_later && cfg.selector_animator_prebuilt && rng.chance(0.5);
    let mut selector_present = cfg.selector && !cfg.selector_inserted_later;
    let mut selector_removed = false;
    let p_seek = if property != "C19" { on(rng, 0.03) } else { on(rng, 0.005) };
    let p_extra_parts = if cfg.extra_entity.is_some() { on(rng, 0.04) } else { 0.0 };
    let p_remove_selector = if cfg.selector { on(rng, 0.02) } else { 0.0 };
    let p_edit_timelines = if cfg.selector { on(rng, 0.05) } else { 0.0 };
    if cfg.selector && !selector_present {
        // until the selector arrives the prebuilt animator (if any) plays its own timeline
        cur_tl = if cfg.selector_animator_prebuilt { cfg.initial_tl } else { None };
    }
    // A marathon run continues the finished schedule with a long tail (hundreds to a few thousand
    // frames in one App's life), drawn from a stream of its own that is forked from one extra
    // value at the end of the main stream: every other run, and the first part of this one, is
    // what it was before marathon runs existed.
    let mut frame_no = 0usize;
    let mut total_frames = n_frames;
    let mut tail_rng: Option<Rng> = None;
    loop {
    while frame_no < total_frames {
        let rng: &mut Rng = match tail_rng.as_mut() {
            Some(r) => r,
            None => &mut *rng,
        };
        let mut ops = Vec::new();
        let mut fault: &'static str = "none";
        if extra_spawn_at == Some(frame_no) {
            ops.push(BOp::SpawnExtra);
        }
        if extra_despawn_at == Some(frame_no) {
            ops.push(BOp::DespawnExtra);
        }
        if cfg.extra_entity.is_some() && rng.chance(p_extra_parts) {
            ops.push(match rng.below(3) {
                0 => BOp::ExtraRemoveTarget,
                1 => BOp::ExtraInsertTarget,
                _ => BOp::ExtraReplaceAnimator(rng.usize_below(cfg.tls.len())),
            });
        }
        if selector_present && rng.chance(p_chain_toggle) {
            chain_present = !chain_present;
            ops.push(if chain_present { BOp::InsertChain } else { BOp::RemoveChain });
        }
        if insert_after_end && just_ended && !selector_present {
            insert_selector_at = Some(frame_no);
        }
        if insert_selector_at == Some(frame_no) && !selector_present {
            ops.push(BOp::InsertSelector);
            selector_present = true;
            cur_key = cfg.initial_key;
            cur_tl = cfg.keys[cfg.initial_key as usize];
            pos_ns = 0;
            ended = false;
        }
        // the selector component removed / re-attached, its timelines map edited at run time
        if cfg.selector && selector_present && rng.chance(p_remove_selector) {
            ops.push(BOp::RemoveSelector);
            selector_present = false;
            selector_removed = true;
        } else if cfg.selector && selector_removed && !selector_present && rng.chance(0.25) {
            ops.push(BOp::InsertSelector);
            selector_present = true;
            selector_removed = false;
            chain_present = true;
            cur_key = cfg.initial_key;
            cur_tl = cfg.keys[cfg.initial_key as usize];
            pos_ns = 0;
            ended = false;
        }
        if cfg.selector && selector_present && rng.chance(p_edit_timelines) {
            let key = if rng.chance(0.4) { cur_key } else { rng.below(n_keys as u64) as Key };
            ops.push(BOp::EditTimelines {
                key,
                tl: if rng.chance(0.7) { Some(rng.usize_below(cfg.tls.len())) } else { None },
            });
        }
        if rng.chance(p_seek) {
            let astronomical = if (extreme && rng.chance(0.4)) || rng.chance(0.03) { rng.range(1, 4) as u8 } else { 0 };
            ops.push(BOp::Seek {
                eighths_of_total: *rng.pick(&[0u32, 1, 4, 7, 8, 8, 9, 16, 3, 6]),
                astronomical,
            });
            fault = "seek";
        }
        // user: key assignments
        let p_k = if just_ended { p_key.max(p_after_end) } else { p_key };
        if cfg.selector && selector_present && rng.chance(p_k) {
            let burst = if rng.chance(p_burst) { rng.range(2, 3) } else { 1 };
            for _ in 0..burst {
                let k = if rng.chance(p_dup) {
                    fault = "duplicate_event";
                    cur_key
                } else {
                    rng.below(n_keys as u64) as Key
                };
                ops.push(BOp::SetKey(k));
                if k != cur_key {
                    cur_key = k;
                    cur_tl = cfg.keys[k as usize];
                    pos_ns = 0;
                    ended = false;
                }
            }
            if burst > 1 {
                fault = "event_burst";
            } else if just_ended && fault == "none" {
                fault = "event_after_end";
            }
        }
        // app clock
        if rng.chance(p_clock) {
            if rng.chance(0.5) {
                clock_paused = !clock_paused;
                ops.push(BOp::PauseTime(clock_paused));
            } else {
                clock_speed = *rng.pick(&[0u8, 1, 2]);
                ops.push(BOp::TimeSpeed(clock_speed));
            }
            fault = "app_clock";
        } else if clock_paused && rng.chance(0.4) {
            clock_paused = false;
            ops.push(BOp::PauseTime(false));
        }
        // operator
        if rng.chance(p_toggle) {
            enabled = !enabled;
            ops.push(BOp::Enable(enabled));
            fault = "toggle_enabled";
        } else if !enabled && rng.chance(0.3) {
            enabled = true;
            ops.push(BOp::Enable(true));
        }
        if rng.chance(p_reset) {
            ops.push(BOp::Reset);
            pos_ns = 0;
            ended = false;
            fault = "reset";
        }
        if rng.chance(p_retarget) {
            let tl = rng.usize_below(n_tls);
            // hot-swap only while the animation is not over; otherwise swap and reset
            // (a swap without reset after the end is legal: the animator then stays Ended and its
            // position must stay put; the Ended clauses about the *new* timeline do not apply)
            let reset = (ended && rng.chance(0.8)) || rng.chance(0.5);
            ops.push(BOp::SetTimeline {
                tl,
                reset,
                start_with: rng.chance(0.5),
            });
            cur_tl = Some(tl);
            if reset {
                pos_ns = 0;
                ended = false;
            }
            fault = "retarget";
        }
        // frame delta
        let total = cur_tl.and_then(|i| oracle::merged_total(&cfg.tls[i]));
        let mut delta: Option<u64> = None;
        if rng.chance(p_suspend) {
            let secs = *rng.pick(&[3600u64, 86_400, 31_536_000, 315_360_000]);
            delta = Some(secs * 1_000_000_000 + rng.below(1_000_000_000));
            fault = "suspend";
        } else if rng.chance(p_boundary) {
            if let Some(i) = cur_tl {
                let bs = oracle::boundaries(&cfg.tls[i], 3);
                let pos_s = pos_ns as f64 / 1e9;
                let ahead: Vec<f64> = bs.into_iter().filter(|b| *b > pos_s).collect();
                if !ahead.is_empty() {
                    let b = ahead[rng.usize_below(ahead.len().min(5))];
                    let d_ns = ((b - pos_s) * 1e9).round();
                    if d_ns >= 0.0 && d_ns < 1e15 {
                        let d_ns = d_ns as u64;
                        if !cfg.grid || d_ns % 125_000_000 == 0 {
                            let tweak = if cfg.grid { 0 } else { rng.range(-1, 1) };
                            delta = Some((d_ns as i64 + tweak).max(0) as u64);
                            fault = "land_on_boundary";
                        }
                    }
                }
            }
        }
        if delta.is_none() && rng.chance(p_run_out) {
            // one frame that carries the position just past the total duration, however long
            // that is (decades for the largest repeat counts)
            if let Some(t) = total {
                let remaining = t - pos_ns as f64 / 1e9;
                if remaining > 0.0 && remaining < 3.0e9 {
                    delta = Some(((remaining * 1e9) as u64).saturating_add(period_ns));
                    fault = "hitch";
                }
            }
        }
        if delta.is_none() {
            if rng.chance(p_zero) {
                delta = Some(0);
                fault = "zero_frame";
            } else if rng.chance(p_hitch) {
                let t = total.unwrap_or(4.0).min(60.0);
                let d = if cfg.grid {
                    ns_of_eighths(rng.range(4, 48) as u64 + if rng.chance(0.5) { (t * 8.0).ceil() as u64 } else { 0 })
                } else {
                    ((0.5 + rng.unit() * (2.0 * t + 2.0)) * 1e9) as u64
                };
                delta = Some(d);
                fault = "hitch";
            }
        }
        let delta = delta.unwrap_or_else(|| {
            if rng.chance(jitter) {
                if fault == "none" {
                    fault = "jitter";
                }
                if cfg.grid {
                    period_ns * rng.range(1, 3) as u64
                } else {
                    (period_ns as f64 * (0.25 + 1.75 * rng.unit())) as u64
                }
            } else {
                period_ns
            }
        });
        // bookkeeping
        let was_ended = ended;
        if enabled && cur_tl.is_some() && !ended && !clock_paused {
            pos_ns += match clock_speed {
                0 => delta as u128 / 2,
                2 => delta as u128 * 2,
                _ => delta as u128,
            };
            if let Some(Some(t)) = total.map(Some) {
                if pos_ns as f64 / 1e9 >= t {
                    ended = true;
                }
            }
        }
        just_ended = ended && !was_ended;
        frames.push(Frame {
            ops,
            delta_ns: delta,
            fault,
        });
        frame_no += 1;
    }
    if tail_rng.is_some() {
        break;
    }
    let fork = rng.next_u64();
    // (decided from the same extra value, so that no other draw moves: one run in twelve has a
    // crowd of 6..40 identically configured plain animated entities)
    if (fork >> 20) % 12 == 0 {
        cfg.crowd = Some((((fork >> 32) % cfg.tls.len() as u64) as usize, 6 + ((fork >> 40) % 35) as u8));
    }
    // (not with an overshooting easing in the pool: re-targeting again and again from the current
    // component under a Back curve can ratchet a value out of an integer's range - the panic
    // `Lerp` documents)
    let overshooting = cfg.tls.iter().any(|m| m.parts.iter().any(|p| p.uses_back()));
    if fork % MARATHON_ONE_IN == 0 && !overshooting {
        let mut r = Rng::new(fork ^ 0x6d61_7261_7468_6f6e);
        total_frames = n_frames + r.range(250, if extreme { 600 } else if deep { 3000 } else { 1200 }) as usize;
        tail_rng = Some(r);
    } else {
        break;
    }
    }
    BScn { cfg, frames }
}

/// One run in this many is a marathon run (see `generate`).
pub const MARATHON_ONE_IN: u64 = 127;

pub fn shrink_candidates(s: &BScn) -> Vec<BScn> {
    let mut out = Vec::new();
    let n = s.frames.len();
    // drop chunks of frames
    let mut len = n / 2;
    while len >= 1 {
        let mut start = 0;
        while start + len <= n {
            let mut c = s.clone();
            c.frames.drain(start..start + len);
            if !c.frames.is_empty() {
                out.push(c);
            }
            start += len;
        }
        len /= 2;
    }
    // merge adjacent frames (sum of deltas, ops concatenated)
    for i in 0..n.saturating_sub(1) {
        if s.frames[i + 1].ops.is_empty() {
            let mut c = s.clone();
            c.frames[i].delta_ns += c.frames[i + 1].delta_ns;
            c.frames.remove(i + 1);
            out.push(c);
        }
    }
    // drop single ops
    for (fi, f) in s.frames.iter().enumerate() {
        for oi in 0..f.ops.len() {
            let mut c = s.clone();
            c.frames[fi].ops.remove(oi);
            out.push(c);
        }
    }
    // configuration
    {
        let mut push = |f: &dyn Fn(&mut Cfg)| {
            let mut c = s.clone();
            f(&mut c.cfg);
            if c != *s {
                out.push(c);
            }
        };
        push(&|c| {
            c.second = None;
            if !c.other_plugin() {
                c.order.sequence.retain(|s| *s != "animate_other");
            }
        });
        push(&|c| {
            c.lone_other = None;
            if !c.other_plugin() {
                c.order.sequence.retain(|s| *s != "animate_other");
            }
        });
        push(&|c| c.late_animator = None);
        push(&|c| {
            if let Some(l) = c.late_animator.as_mut() {
                if l.touch_at.len() > 1 {
                    l.touch_at.pop();
                }
            }
        });
        push(&|c| {
            if let Some(l) = c.lone_other.as_mut() {
                l.insert_component_at = None;
            }
        });
        push(&|c| c.extra_entity = None);
        push(&|c| c.crowd = None);
        push(&|c| {
            if let Some((tl, n)) = c.crowd {
                if n > 2 {
                    c.crowd = Some((tl, 2));
                }
            }
        });
        push(&|c| c.mirror = None);
        push(&|c| c.orphan = None);
        push(&|c| c.chain = None);
        push(&|c| {
            if let Some(ch) = c.chain.as_mut() {
                if ch.len() > 1 {
                    ch.pop();
                }
            }
        });
        push(&|c| {
            if let Some(ch) = c.chain.as_mut() {
                if ch.len() > 1 {
                    ch.remove(0);
                }
            }
        });
        push(&|c| c.start_disabled = false);
        push(&|c| c.selector_animator_prebuilt = false);
        push(&|c| c.initial_start_with = false);
        push(&|c| {
            let all = legal_sequences(c.selector, c.other_plugin());
            c.order.sequence = all[0].clone();
        });
        push(&|c| c.order.other_plugin_first = false);
        push(&|c| c.order.register_before_plugin = false);
        push(&|c| {
            c.initial = Vals {
                k: c.initial.k,
                tag: c.initial.tag,
                ..Vals::default()
            }
        });
        for ti in 0..s.cfg.tls.len() {
            if s.cfg.tls[ti].parts.len() > 1 {
                for pi in 0..s.cfg.tls[ti].parts.len() {
                    push(&|c| {
                        c.tls[ti].parts.remove(pi);
                    });
                }
            }
            for pi in 0..s.cfg.tls[ti].parts.len() {
                let n_k = s.cfg.tls[ti].parts[pi].kfs.len();
                if n_k > 48 {
                    let mut len = n_k / 2;
                    while len >= (n_k / 16).max(1) {
                        let mut start = 0;
                        while start + len <= n_k {
                            push(&|c| {
                                c.tls[ti].parts[pi].kfs.drain(start..start + len);
                            });
                            start += len;
                        }
                        len /= 2;
                    }
                } else {
                    for ki in 0..n_k {
                        push(&|c| {
                            c.tls[ti].parts[pi].kfs.remove(ki);
                        });
                        push(&|c| c.tls[ti].parts[pi].kfs[ki].easing = None);
                        push(&|c| c.tls[ti].parts[pi].kfs[ki].via_from = false);
                    }
                }
                push(&|c| c.tls[ti].parts[pi].easing = 0);
                push(&|c| c.tls[ti].parts[pi].delay = 0.0);
                push(&|c| c.tls[ti].parts[pi].repeat = Rep::None);
                push(&|c| c.tls[ti].parts[pi].reverse = false);
                push(&|c| c.tls[ti].parts[pi].duration = 1.0);
                push(&|c| c.tls[ti].parts[pi].kfs.sort_by(|a, b| a.pos.total_cmp(&b.pos)));
            }
        }
    }
    // simplify deltas
    for i in 0..n {
        let d = s.frames[i].delta_ns;
        for cand in [0u64, 125_000_000, 1_000_000_000, d / 2] {
            if cand != d && (!s.cfg.grid || cand % 125_000_000 == 0) {
                let mut c = s.clone();
                c.frames[i].delta_ns = cand;
                out.push(c);
            }
        }
    }
    out.retain(|c| c.cfg.tls.iter().all(simmodel::gen::merged_is_in_domain));
    out
}

pub fn size(s: &BScn) -> usize {
    let mut n = s.frames.len() * 2 + s.frames.iter().map(|f| f.ops.len() * 2).sum::<usize>();
    n += s.cfg.second.is_some() as usize * 3;
    n += s.cfg.lone_other.is_some() as usize * 3 + s.cfg.late_animator.as_ref().map(|l| 2 + l.touch_at.len()).unwrap_or(0);
    n += s.cfg.extra_entity.is_some() as usize * 3;
    n += s.cfg.mirror.is_some() as usize * 3;
    n += s.cfg.orphan.is_some() as usize * 3;
    n += s.cfg.chain.as_ref().map(|c| 1 + c.len()).unwrap_or(0);
    n += s.cfg.start_disabled as usize + s.cfg.initial_start_with as usize;
    n += s.cfg.selector_inserted_later as usize * 2 + s.cfg.selector_animator_prebuilt as usize;
    n += (s.cfg.order.sequence != legal_sequences(s.cfg.selector, s.cfg.other_plugin())[0]) as usize
        + s.cfg.order.other_plugin_first as usize
        + s.cfg.order.register_before_plugin as usize;
    for m in &s.cfg.tls {
        for p in &m.parts {
            n += 3
                + p.kfs.len() * 2
                + (p.delay != 0.0) as usize
                + (p.repeat != Rep::None) as usize
                + p.reverse as usize
                + (p.easing != 0) as usize
                + p.kfs.iter().filter(|k| k.easing.is_some()).count()
                + (!p.kfs.windows(2).all(|w| w[0].pos <= w[1].pos)) as usize;
        }
    }
    n
}
