//! core_sim: deterministic simulation of the real `StateAnimator` under a virtual clock, a frame
//! pacer, a user process and a fault injector. Decides C04 C05 C06 C07 C08 and the core part of C20.

mod exec;
mod model;
mod scenario;
mod shapes;

use simkit::driver::{main_cli, Engine, RunOutcome, Tier};
use simkit::json::Json;
use simkit::rng::Rng;

struct CoreEngine;

impl Engine for CoreEngine {
    type Scn = scenario::Scn;

    fn name(&self) -> &'static str {
        "core_sim"
    }

    fn properties(&self) -> &'static [&'static str] {
        &["C04", "C05", "C06", "C07", "C08", "C20"]
    }

    fn generate(&self, rng: &mut Rng, property: &str, tier: Tier) -> Self::Scn {
        scenario::generate(rng, property, tier == Tier::Thorough)
    }

    fn execute(&self, scn: &Self::Scn, property: &str) -> RunOutcome {
        exec::execute(scn, property)
    }

    fn shrink_candidates(&self, scn: &Self::Scn) -> Vec<Self::Scn> {
        scenario::shrink_candidates(scn)
    }

    fn size(&self, scn: &Self::Scn) -> usize {
        scenario::size(scn)
    }

    fn to_json(&self, scn: &Self::Scn) -> Json {
        scenario::to_json(scn)
    }

    fn from_json(&self, j: &Json) -> Result<Self::Scn, String> {
        scenario::from_json(j)
    }

    fn components_real(&self) -> Vec<&'static str> {
        vec![
            "mina_core::animator (StateAnimatorBuilder, MappedTimelineAnimator)",
            "mina_core::timeline, timeline_helpers, time_scale, easing, interpolation",
            "mina_macros::Animate (derive expanded when the harness is compiled)",
            "std::time::Duration arithmetic",
        ]
    }

    fn components_simulated(&self) -> Vec<&'static str> {
        vec![
            "wall clock / frame pacer (advance deltas chosen by the simulator)",
            "user input (set_state events placed between frames)",
            "fault injector (zero frames, hitches, suspends, boundary landings, bursts, duplicates, flicker)",
        ]
    }

    fn rule(&self, property: &str) -> String {
        let common = "Each run draws swarm knobs, an animator configuration (5 states, 1-3 merged components - one merge in sixteen up to 9 -, usually <=9 keyframes, rarely dozens to 70,000, permuted insertion order, 29 easings, delay/repeat/reverse/infinite; one run in nine with two states sharing one definition) and a trace of <=48 operations (4% of the runs <=200; one run in 97 continues with a marathon tail of 250-1500 operations, thorough -4000; one run in 400 idles for 70,000 zero-length frames) from one PRNG stream; ";
        let specific = match property {
            "C04" => "evaluation = one set_state call compared before/after; non-trivial = the target state's own 0% value differs from the current value for a keyframed property, or the call resumes a paused animation; distinct = (source phase, remembered-pause relation, transition kind, target delayed?, merged size, history length) tuples",
            "C05" => "evaluation = one operation compared with the reference model; non-trivial = a state change or a phase change; distinct = (phase before, remembered relation, operation kind, phase after, history length) tuples",
            "C06" => "evaluation = one synchronisation point of a re-partitioned schedule compared with the base schedule; non-trivial = a re-partitioned segment whose parts straddle a phase boundary; distinct = (variant kind, number of steps, number of state changes, grid?) tuples",
            "C07" => "evaluation = one operation's is_ended compared with the configuration-derived end instant; non-trivial = first ended observation of a stint; distinct = (phase before, op kind, merged size, reverse?, repeat?, landed exactly on end?) tuples",
            "C08" => "evaluation = one operation with sentinel/un-keyed-property invariants; non-trivial = an un-keyed property checked while an animated state is current; distinct = (property, phase, op kind, merged size, zero-keyframe?) tuples",
            _ => "evaluation = one operation under catch_unwind with finiteness checks; distinct = (phase before, op kind, fault kind, phase after) tuples",
        };
        format!("{common}{specific}")
    }

    fn assumptions(&self, property: &str) -> Vec<String> {
        let mut a = vec![
            "inputs the library documents as unsupported are not generated (negative/NaN dt, integer overshoot with Back easings, duplicate positions per property, zero cycle duration)".to_string(),
            "the animated struct shape is the one compiled into the harness (Vals: f32,f32,i32,u8 animated + one excluded field)".to_string(),
        ];
        if property == "C05" || property == "C06" {
            a.push("expected values are computed by the real timeline layer (differential); timeline numerics are not under test here".into());
        }
        a
    }

    fn default_runs(&self, property: &str, tier: Tier) -> u64 {
        let base = match property {
            "C06" => 250_000,
            _ => 1_000_000,
        };
        match tier {
            Tier::Quick => base,
            Tier::Thorough => base * 40,
        }
    }

    fn abstract_transitions_possible(&self, _property: &str) -> u64 {
        // 8 phases x 3 remembered relations x 6 op kinds x 8 phases (upper bound; many impossible)
        8 * 3 * 6 * 8
    }
}

fn main() {
    std::process::exit(main_cli(&CoreEngine));
}
