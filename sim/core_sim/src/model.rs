//! Reference model of the state animator, transcribed from the *property text* (C05), not from
//! `animator.rs`. Evaluation is differential against the real timeline layer: the expected values
//! are a fresh timeline built from the same specification, started from the values held when the
//! state was entered, evaluated at the time spent in the state. Timeline-layer behaviour therefore
//! cancels out and only animator-layer logic can make the model and the real animator disagree.

use mina::prelude::*;
use simmodel::*;
use std::time::Duration;

pub struct Model<'a> {
    pub spec: &'a AnimSpec,
    pub cur: usize,
    pub tau: Duration,
    pub remembered: Option<(usize, Duration)>,
    /// Values each state's timeline was last started from.
    pub entry: Vec<Option<Vals>>,
    pub values: Vals,
    /// The values under the *other* admissible conversion of the time in state to f32 seconds
    /// (see `other_nearest_f32`), when there is one and it gives different values.
    pub values_alt: Option<Vals>,
    /// Timeline of the current stint (rebuilt from the spec at every fresh entry).
    stint: Vec<Option<MergedTimeline<ValsTimeline>>>,
}

pub fn to_duration(dt: f32) -> Duration {
    // "time accumulates": each step contributes its own length; steps too long for a Duration
    // saturate (the property's domain is every finite dt >= 0).
    if dt >= 1.8446744e19 {
        Duration::MAX
    } else {
        Duration::from_secs_f32(dt)
    }
}

/// A neighbour of `d.as_secs_f64() as f32` that is at least as near to the exact time (decided in
/// integer arithmetic on nanoseconds), if there is one: the conversion through f64 rounds twice
/// and can miss the nearest f32 by one step when the f64 lands on a midpoint.
pub fn other_nearest_f32(d: Duration) -> Option<f32> {
    let c0 = d.as_secs_f64() as f32;
    if d.is_zero() || !c0.is_finite() || c0 <= 0.0 {
        return None;
    }
    // |c * 1e9 - nanos| scaled by 2^k, exactly, for an f32 c = m * 2^e
    let nanos = d.as_nanos();
    let err = |c: f32| -> Option<u128> {
        let bits = c.to_bits();
        let exp = ((bits >> 23) & 0xff) as i32;
        let (m, e) = if exp == 0 { ((bits & 0x7f_ffff) as u128, -149) } else { (((bits & 0x7f_ffff) | 0x80_0000) as u128, exp - 150) };
        let scaled_c = m * 1_000_000_000u128; // c * 1e9 * 2^-e
        // compare at the scale 2^-min(e, 0): both sides as integers
        if e >= 0 {
            if e > 60 {
                return None;
            }
            let cn = scaled_c.checked_shl(e as u32)?;
            Some(if cn > nanos { cn - nanos } else { nanos - cn })
        } else {
            if -e > 70 {
                return None;
            }
            let nn = nanos.checked_mul(1u128 << (-e) as u32)?;
            Some(if scaled_c > nn { scaled_c - nn } else { nn - scaled_c })
        }
    };
    let e0 = err(c0)?;
    let exp_of = |c: f32| (c.to_bits() >> 23) & 0xff;
    for c in [f32::from_bits(c0.to_bits() - 1), f32::from_bits(c0.to_bits() + 1)] {
        // (errors are comparable only at one scale: same binade)
        if c.is_finite() && c > 0.0 && exp_of(c) == exp_of(c0) {
            if let Some(e1) = err(c) {
                if e1 <= e0 {
                    return Some(c);
                }
            }
        }
    }
    None
}

impl<'a> Model<'a> {
    pub fn new(spec: &'a AnimSpec) -> Self {
        let mut m = Model {
            spec,
            cur: spec.initial_state as usize,
            tau: Duration::ZERO,
            remembered: None,
            entry: vec![None; NUM_STATES],
            values: spec.initial_values.clone(),
            values_alt: None,
            stint: (0..NUM_STATES).map(|_| None).collect(),
        };
        m.enter_fresh(m.cur);
        m
    }

    fn enter_fresh(&mut self, s: usize) {
        if let Some(ms) = &self.spec.states[s] {
            let mut tl = ms.build();
            tl.start_with(&self.values);
            self.entry[s] = Some(self.values.clone());
            self.stint[s] = Some(tl);
        }
    }

    fn evaluate(&mut self) {
        if let Some(tl) = &self.stint[self.cur] {
            // "the timeline evaluated at the time spent in the state" - and, once that time has
            // reached the timeline's total duration, its terminal values (C07): the end of time
            let s = self.tau.as_secs_f64() as f32;
            let t = if s >= tl.duration() { f32::MAX } else { s };
            self.values_alt = other_nearest_f32(self.tau).map(|s2| {
                let t2 = if s2 >= tl.duration() { f32::MAX } else { s2 };
                let mut v = self.values.clone();
                tl.update(&mut v, t2);
                v
            });
            tl.update(&mut self.values, t);
        } else {
            self.values_alt = None;
        }
    }

    /// Compares observed values with the model's. "The time spent in the state" is a whole number
    /// of nanoseconds; as f32 seconds it is a nearest f32 - the one `as_secs_f64() as f32` gives
    /// (two roundings) or, when those two roundings do not give the nearest one, the nearest.
    /// Either is what the property calls float rounding. When the observed values are those of
    /// the other conversion the model follows (later entry values descend from them).
    pub fn accept(&mut self, observed: &Vals) -> Option<&'static str> {
        match vals_differ(observed, &self.values) {
            None => None,
            Some(f) => match &self.values_alt {
                Some(alt) if vals_differ(observed, alt).is_none() => {
                    self.values = alt.clone();
                    None
                }
                _ => Some(f),
            },
        }
    }

    /// `is_ended` under the other admissible conversion, if there is one.
    pub fn is_ended_differential_alt(&self) -> Option<bool> {
        match &self.stint[self.cur] {
            None => None,
            Some(tl) => other_nearest_f32(self.tau).map(|s2| s2 >= tl.duration()),
        }
    }

    pub fn advance(&mut self, dt: f32) {
        self.tau = self.tau.saturating_add(to_duration(dt));
        self.evaluate();
    }

    pub fn set_state(&mut self, s: usize) {
        if s == self.cur {
            return;
        }
        let target_animated = self.spec.animated(s);
        let cur_animated = self.spec.animated(self.cur);
        match self.remembered {
            Some((rs, p)) if target_animated && rs == s => {
                // returning to the interrupted state directly or through un-animated states only
                self.tau = p;
                self.remembered = None;
            }
            _ => {
                if target_animated {
                    // entering any other animated state discards the remembered position
                    self.remembered = None;
                    self.enter_fresh(s);
                } else if cur_animated {
                    self.remembered = Some((self.cur, self.tau));
                }
                self.tau = Duration::ZERO;
            }
        }
        self.cur = s;
        self.evaluate();
    }

    /// Expected `is_ended`, differential: time in state against the real timeline's duration.
    pub fn is_ended_differential(&self) -> bool {
        match &self.stint[self.cur] {
            None => true,
            Some(tl) => (self.tau.as_secs_f64() as f32) >= tl.duration(),
        }
    }

    /// Relation of the remembered pause to the current state, for coverage keys.
    pub fn remembered_rel(&self) -> u8 {
        match self.remembered {
            None => 0,
            Some((s, _)) if s == self.cur => 1,
            Some(_) => 2,
        }
    }
}

#[cfg(test)]
mod tests {
    use super::*;

    #[test]
    fn other_nearest() {
        // 2^24 + 1 s and one nanosecond: the f64 is the midpoint 16777217.0, which rounds to even
        // (16777216); the nearest f32 is 16777218
        assert_eq!(other_nearest_f32(Duration::new(16_777_217, 1)), Some(16_777_218.0));
        // an exact midpoint is equally near to both
        assert_eq!(other_nearest_f32(Duration::new(16_777_217, 0)), Some(16_777_218.0));
        assert_eq!(other_nearest_f32(Duration::new(16_777_216, 999_999_999)), None);
        assert_eq!(other_nearest_f32(Duration::from_millis(1500)), None);
        assert_eq!(other_nearest_f32(Duration::from_nanos(1)), None);
        assert_eq!(other_nearest_f32(Duration::ZERO), None);
        assert_eq!(other_nearest_f32(Duration::MAX), None);
        let mut seen = 0;
        for i in 0..2_000_000u64 {
            let d = Duration::from_nanos(i * 7_919 + 13);
            if let Some(c) = other_nearest_f32(d) {
                seen += 1;
                let c0 = d.as_secs_f64() as f32;
                assert!((c as f64 - d.as_secs_f64()).abs() <= (c0 as f64 - d.as_secs_f64()).abs() * 1.000001 + 1e-18);
            }
        }
        assert!(seen < 50);
    }
}
