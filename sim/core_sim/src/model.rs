//! Reference model of the state animator, transcribed from the *property text* (C05), not from
//! `animator.rs`. Evaluation is differential against the real timeline layer: the expected values
//! are a fresh timeline built from the same specification, started from the values held when the
//! state was entered, evaluated at the time spent in the state. Timeline-layer behaviour therefore
//! cancels out and only animator-layer logic can make the model and the real animator disagree.

use mina::prelude::*;
use simmodel::*;
use std::time::Duration;

pub struct Model<'a> {
    pub spec: &'a AnimSpec,
    pub cur: usize,
    pub tau: Duration,
    pub remembered: Option<(usize, Duration)>,
    /// Values each state's timeline was last started from.
    pub entry: Vec<Option<Vals>>,
    pub values: Vals,
    /// Timeline of the current stint (rebuilt from the spec at every fresh entry).
    stint: Vec<Option<MergedTimeline<ValsTimeline>>>,
}

pub fn to_duration(dt: f32) -> Duration {
    // "time accumulates": each step contributes its own length; steps too long for a Duration
    // saturate (the property's domain is every finite dt >= 0).
    if dt >= 1.8446744e19 {
        Duration::MAX
    } else {
        Duration::from_secs_f32(dt)
    }
}

impl<'a> Model<'a> {
    pub fn new(spec: &'a AnimSpec) -> Self {
        let mut m = Model {
            spec,
            cur: spec.initial_state as usize,
            tau: Duration::ZERO,
            remembered: None,
            entry: vec![None; NUM_STATES],
            values: spec.initial_values.clone(),
            stint: (0..NUM_STATES).map(|_| None).collect(),
        };
        m.enter_fresh(m.cur);
        m
    }

    fn enter_fresh(&mut self, s: usize) {
        if let Some(ms) = &self.spec.states[s] {
            let mut tl = ms.build();
            tl.start_with(&self.values);
            self.entry[s] = Some(self.values.clone());
            self.stint[s] = Some(tl);
        }
    }

    fn evaluate(&mut self) {
        if let Some(tl) = &self.stint[self.cur] {
            // "the timeline evaluated at the time spent in the state" - and, once that time has
            // reached the timeline's total duration, its terminal values (C07): the end of time
            let s = self.tau.as_secs_f64() as f32;
            let t = if s >= tl.duration() { f32::MAX } else { s };
            tl.update(&mut self.values, t);
        }
    }

    pub fn advance(&mut self, dt: f32) {
        self.tau = self.tau.saturating_add(to_duration(dt));
        self.evaluate();
    }

    pub fn set_state(&mut self, s: usize) {
        if s == self.cur {
            return;
        }
        let target_animated = self.spec.animated(s);
        let cur_animated = self.spec.animated(self.cur);
        match self.remembered {
            Some((rs, p)) if target_animated && rs == s => {
                // returning to the interrupted state directly or through un-animated states only
                self.tau = p;
                self.remembered = None;
            }
            _ => {
                if target_animated {
                    // entering any other animated state discards the remembered position
                    self.remembered = None;
                    self.enter_fresh(s);
                } else if cur_animated {
                    self.remembered = Some((self.cur, self.tau));
                }
                self.tau = Duration::ZERO;
            }
        }
        self.cur = s;
        self.evaluate();
    }

    /// Expected `is_ended`, differential: time in state against the real timeline's duration.
    pub fn is_ended_differential(&self) -> bool {
        match &self.stint[self.cur] {
            None => true,
            Some(tl) => (self.tau.as_secs_f64() as f32) >= tl.duration(),
        }
    }

    /// Relation of the remembered pause to the current state, for coverage keys.
    pub fn remembered_rel(&self) -> u8 {
        match self.remembered {
            None => 0,
            Some((s, _)) if s == self.cur => 1,
            Some(_) => 2,
        }
    }
}
