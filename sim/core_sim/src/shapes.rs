//! Additional struct shapes for C08 (which fields carry `#[animate]`): every C08 run also drives one
//! of these shapes - chosen by the scenario - through the same operation trace and checks that the
//! excluded fields never change, neither through a state animator nor through a bare timeline.
//! Keyframes are partly built with `keyframe_from(&value, ..)` where `value` holds *foreign*
//! contents in the excluded fields, so that a wrong animated-field set becomes observable.

use crate::scenario::{Fault, Op};
use mina::prelude::*;

#[derive(Clone, Copy, Debug, Default, Eq, PartialEq, State)]
pub enum Sh {
    #[default]
    A,
    B,
    C,
}

const SH: [Sh; 3] = [Sh::A, Sh::B, Sh::C];

macro_rules! shape {
    (
        $run:ident, $name:ident {
            animated: [$($af:ident : $at:ty = $a0:expr, $a1:expr, $a2:expr);+ $(;)?],
            excluded: [$($ef:ident : $et:ty = $e_init:expr, $e_foreign:expr);+ $(;)?]
        }
    ) => {
        #[derive(Animate, Clone, Debug, Default, PartialEq)]
        pub struct $name {
            $( #[animate] pub $af: $at, )+
            $( pub $ef: $et, )+
        }

        /// Returns a description of the first excluded field that changed, if any.
        pub fn $run(ops: &[(Op, Fault)], variant: u64) -> Option<String> {
            let initial = $name { $( $af: $a0, )+ $( $ef: $e_init, )+ };
            let foreign1 = $name { $( $af: $a1, )+ $( $ef: $e_foreign, )+ };
            let foreign2 = $name { $( $af: $a2, )+ $( $ef: $e_foreign, )+ };
            let reverse = variant & 1 == 1;
            let repeat = if variant & 2 == 2 { Repeat::Times(1) } else { Repeat::None };
            let delay = if variant & 4 == 4 { 0.25 } else { 0.0 };
            let tl_a = || $name::timeline()
                .duration_seconds(1.0)
                .delay_seconds(delay)
                .reverse(reverse)
                .repeat(repeat)
                .keyframe($name::keyframe_from(&foreign1, 0.0))
                .keyframe($name::keyframe_from(&foreign2, 1.0));
            let tl_b = || $name::timeline()
                .duration_seconds(0.75)
                .keyframe($name::keyframe_from(&foreign2, 0.5))
                .keyframe($name::keyframe(1.0) $( .$af($a1) )+ );
            // bare timelines on a dirty target
            let bare = TimelineBuilder::build(tl_a());
            for t in [0.0f32, 0.1, 0.3, 0.8, 1.2, 1.7, 2.6, 100.0] {
                let mut target = initial.clone();
                bare.update(&mut target, t);
                $( if target.$ef != initial.$ef {
                    return Some(format!(
                        "shape {}: Timeline::update at t={t} changed excluded field {} from {:?} to {:?}",
                        stringify!($name), stringify!($ef), initial.$ef, target.$ef));
                } )+
            }
            let merged = MergedTimeline::of([TimelineBuilder::build(tl_a()), TimelineBuilder::build(tl_b())]);
            for t in [0.0f32, 0.4, 0.9, 3.0] {
                let mut target = initial.clone();
                merged.update(&mut target, t);
                $( if target.$ef != initial.$ef {
                    return Some(format!(
                        "shape {}: MergedTimeline::update at t={t} changed excluded field {} from {:?} to {:?}",
                        stringify!($name), stringify!($ef), initial.$ef, target.$ef));
                } )+
            }
            // state animator: A and B animated, C un-animated
            let mut anim = StateAnimatorBuilder::new()
                .from_state(Sh::C)
                .from_values(initial.clone())
                .on(Sh::A, tl_a())
                .on(Sh::B, tl_b())
                .build();
            for (i, (op, _)) in ops.iter().enumerate() {
                match op {
                    Op::Advance(dt) => anim.advance(*dt),
                    Op::SetState(s) => anim.set_state(&SH[*s as usize % 3]),
                }
                let v = anim.current_values();
                $( if v.$ef != initial.$ef {
                    return Some(format!(
                        "shape {}: after operation {i} ({op:?}) the animator changed excluded field {} from {:?} to {:?}",
                        stringify!($name), stringify!($ef), initial.$ef, v.$ef));
                } )+
            }
            None
        }
    };
}

shape!(run_one_of_three, OneOfThree {
    animated: [x: f32 = 1.5, 20.0, -4.0],
    excluded: [y: f32 = 7.25, -999.0; layer: u32 = 9, 0xBAD]
});

shape!(run_one_of_two, OneOfTwo {
    animated: [alpha: f32 = 0.5, 1.0, 0.0],
    excluded: [id: i64 = -77, 123456]
});

shape!(run_two_of_three, TwoOfThree {
    animated: [p: f32 = 0.0, 10.0, 5.0; r: i16 = 3, 300, -300],
    excluded: [q: u8 = 200, 1]
});

shape!(run_three_of_five, ThreeOfFive {
    animated: [a: f64 = 1.0, 2.0, 3.0; b: u32 = 10, 1000, 500; c: i8 = -5, 100, -100],
    excluded: [first: u16 = 4242, 1; last: f32 = 0.125, 64.0]
});

/// Hand-written shapes for what the macro above cannot express: other attributes and doc
/// comments written before `#[animate]`, and excluded fields declared *between* and *after*
/// animated ones.
#[derive(Animate, Clone, Debug, Default, PartialEq)]
pub struct Documented {
    pub id: i32,
    /// Horizontal position (a doc comment before the marker).
    #[animate]
    pub x: f32,
    pub radius: f32,
    #[allow(dead_code)]
    #[animate]
    pub y: f32,
    pub layer: u16,
}

pub fn run_documented(ops: &[(Op, Fault)], variant: u64) -> Option<String> {
    let initial = Documented { id: 42, x: 1.0, radius: 64.0, y: -1.0, layer: 7 };
    let foreign1 = Documented { id: 7, x: 10.0, radius: 0.0, y: 5.0, layer: 900 };
    let foreign2 = Documented { id: -3, x: -10.0, radius: 1.5, y: 50.0, layer: 1 };
    let check = |v: &Documented, what: &str| -> Option<String> {
        if v.id != initial.id || v.radius != initial.radius || v.layer != initial.layer {
            Some(format!(
                "shape Documented: {what} changed an excluded field: id {} radius {} layer {} (must stay 42 / 64 / 7)",
                v.id, v.radius, v.layer
            ))
        } else {
            None
        }
    };
    let tl = || {
        Documented::timeline()
            .duration_seconds(1.0)
            .delay_seconds(if variant & 4 == 4 { 0.25 } else { 0.0 })
            .reverse(variant & 1 == 1)
            .keyframe(Documented::keyframe_from(&foreign1, 0.0))
            .keyframe(Documented::keyframe_from(&foreign2, 1.0))
    };
    let bare = TimelineBuilder::build(tl());
    for t in [0.0f32, 0.1, 0.5, 1.0, 1.2, 3.0] {
        let mut target = initial.clone();
        bare.update(&mut target, t);
        if let Some(d) = check(&target, &format!("Timeline::update at t={t}")) {
            return Some(d);
        }
    }
    let mut anim = StateAnimatorBuilder::new()
        .from_state(Sh::C)
        .from_values(initial.clone())
        .on(Sh::A, tl())
        .on(Sh::B, Documented::timeline().keyframe(Documented::keyframe(1.0).x(3.0).y(4.0)))
        .build();
    for (i, (op, _)) in ops.iter().enumerate() {
        match op {
            Op::Advance(dt) => anim.advance(*dt),
            Op::SetState(s) => anim.set_state(&SH[*s as usize % 3]),
        }
        if let Some(d) = check(anim.current_values(), &format!("operation {i} ({op:?})")) {
            return Some(d);
        }
    }
    None
}

/// Narrow / wide numeric field types, crate-private visibility, and excluded fields whose types
/// are not interpolable at all (a `String`, a `Vec`).
#[derive(Animate, Clone, Debug, Default, PartialEq)]
pub(crate) struct Mixed {
    // (the non-interpolable fields are declared before the first marker: a defect that wrongly
    // animates fields *after* a marker should show up as a violation on the other shapes, not as
    // a harness that no longer compiles)
    pub(crate) label: String,
    history: Vec<u32>,
    #[animate]
    pub(crate) small: i8,
    #[animate]
    wide: f64,
    #[animate]
    pub count: u16,
    #[animate]
    big: i64,
}

pub fn run_mixed(ops: &[(Op, Fault)], variant: u64) -> Option<String> {
    let initial = Mixed { label: "keep".into(), small: -3, wide: 0.5, history: vec![1, 2, 3], count: 9, big: 1000 };
    let other = Mixed { label: "foreign".into(), small: 100, wide: -8.25, history: vec![], count: 6000, big: -50000 };
    let check = |v: &Mixed, what: &str| -> Option<String> {
        if v.label != initial.label || v.history != initial.history {
            Some(format!("shape Mixed: {what} changed an excluded field: label {:?} history {:?}", v.label, v.history))
        } else {
            None
        }
    };
    let tl = || {
        Mixed::timeline()
            .duration_seconds(2.0)
            .repeat(if variant & 2 == 2 { Repeat::Times(2) } else { Repeat::None })
            .reverse(variant & 1 == 1)
            .keyframe(Mixed::keyframe_from(&other, 0.25))
            .keyframe(Mixed::keyframe(1.0).small(-128).wide(1.0e6).count(65535).big(1 << 20))
    };
    let bare = TimelineBuilder::build(tl());
    for t in [0.0f32, 0.3, 0.5, 1.9, 2.0, 4.1, 50.0] {
        let mut target = initial.clone();
        bare.update(&mut target, t);
        if let Some(d) = check(&target, &format!("Timeline::update at t={t}")) {
            return Some(d);
        }
    }
    let mut anim = StateAnimatorBuilder::new()
        .from_state(Sh::B)
        .from_values(initial.clone())
        .on(Sh::A, tl())
        .build();
    for (i, (op, _)) in ops.iter().enumerate() {
        match op {
            Op::Advance(dt) => anim.advance(*dt),
            Op::SetState(s) => anim.set_state(&SH[*s as usize % 3]),
        }
        if let Some(d) = check(anim.current_values(), &format!("operation {i} ({op:?})")) {
            return Some(d);
        }
    }
    None
}

/// A remote target (as for a foreign crate's type): the proxy lists only some of its fields.
#[derive(Clone, Debug, Default, PartialEq)]
pub struct RemoteTarget {
    pub before: u32,
    pub x: f32,
    pub between: f32,
    pub size: u16,
    pub after: i64,
}

#[derive(Animate)]
#[animate(remote = "RemoteTarget")]
#[allow(dead_code)]
pub struct RemoteProxy {
    x: f32,
    size: u16,
}

pub fn run_remote(ops: &[(Op, Fault)], variant: u64) -> Option<String> {
    let initial = RemoteTarget { before: 5, x: 1.0, between: 2.5, size: 10, after: -9 };
    let foreign = RemoteTarget { before: 500, x: 40.0, between: -2.5, size: 700, after: 9000 };
    let check = |v: &RemoteTarget, what: &str| -> Option<String> {
        if v.before != initial.before || v.between != initial.between || v.after != initial.after {
            Some(format!(
                "remote proxy: {what} changed a field the proxy does not list: before {} between {} after {}",
                v.before, v.between, v.after
            ))
        } else {
            None
        }
    };
    let tl = || {
        RemoteProxy::timeline()
            .duration_seconds(1.25)
            .delay_seconds(if variant & 1 == 1 { 0.5 } else { 0.0 })
            .reverse(variant & 2 == 2)
            .keyframe(RemoteProxy::keyframe_from(&foreign, 0.0))
            .keyframe(RemoteProxy::keyframe(1.0).x(-3.0).size(65000))
    };
    let bare = TimelineBuilder::build(tl());
    for t in [0.0f32, 0.25, 0.75, 1.25, 1.75, 9.0] {
        let mut target = initial.clone();
        bare.update(&mut target, t);
        if let Some(d) = check(&target, &format!("Timeline::update at t={t}")) {
            return Some(d);
        }
    }
    let mut anim = StateAnimatorBuilder::new()
        .from_state(Sh::C)
        .from_values(initial.clone())
        .on(Sh::A, tl())
        .build();
    for (i, (op, _)) in ops.iter().enumerate() {
        match op {
            Op::Advance(dt) => anim.advance(*dt),
            Op::SetState(s) => anim.set_state(&SH[*s as usize % 3]),
        }
        if let Some(d) = check(anim.current_values(), &format!("operation {i} ({op:?})")) {
            return Some(d);
        }
    }
    None
}

/// The smallest shape: a single field (no marker, so it is the animated one) - and next to it a
/// struct with one marked field out of one.
#[derive(Animate, Clone, Debug, Default, PartialEq)]
pub struct Lone {
    pub v: f32,
}

#[derive(Animate, Clone, Debug, Default, PartialEq)]
pub struct LoneMarked {
    #[animate]
    pub v: i16,
}

pub fn run_lone(ops: &[(Op, Fault)], variant: u64) -> Option<String> {
    let mut a = StateAnimatorBuilder::new()
        .from_state(Sh::C)
        .from_values(Lone { v: 2.0 })
        .on(Sh::A, Lone::timeline().duration_seconds(1.0).keyframe(Lone::keyframe(1.0).v(10.0)))
        .build();
    let mut b = StateAnimatorBuilder::new()
        .from_state(Sh::C)
        .from_values(LoneMarked { v: 2 })
        .on(
            Sh::A,
            LoneMarked::timeline()
                .duration_seconds(1.0)
                .reverse(variant & 1 == 1)
                .keyframe(LoneMarked::keyframe_from(&LoneMarked { v: 300 }, 0.5)),
        )
        .build();
    for (i, (op, _)) in ops.iter().enumerate() {
        match op {
            Op::Advance(dt) => {
                a.advance(*dt);
                b.advance(*dt);
            }
            Op::SetState(s) => {
                a.set_state(&SH[*s as usize % 3]);
                b.set_state(&SH[*s as usize % 3]);
            }
        }
        // while un-animated (state C or B) nothing may move, not even the only field there is
        if *a.current_state() != Sh::A {
            let (va, vb) = (a.current_values().v, b.current_values().v);
            a.advance(0.0);
            b.advance(0.0);
            if a.current_values().v != va || b.current_values().v != vb {
                return Some(format!(
                    "single-field shapes: operation {i}: values moved in an un-animated state"
                ));
            }
        }
    }
    None
}

/// A remote proxy that itself marks only some of its fields, and a struct whose excluded field
/// names are substrings of the marked ones (`id` in `width`, `x` in `max_x`).
pub mod marked_remote {
    use mina::prelude::*;

    /// (a second remote target type: two proxies for one remote type cannot share a module,
    /// the generated names derive from the remote type's name)
    #[derive(Clone, Debug, Default, PartialEq)]
    pub struct Panel {
        pub before: u32,
        pub x: f32,
        pub between: f32,
        pub size: u16,
        pub after: i64,
    }

    #[derive(Animate)]
    #[animate(remote = "Panel")]
    #[allow(dead_code)]
    pub struct PanelProxy {
        #[animate]
        x: f32,
        size: u16,
        between: f32,
    }
}
use marked_remote::{Panel, PanelProxy};

#[derive(Animate, Clone, Debug, Default, PartialEq)]
pub struct Substr {
    #[animate]
    pub width: f32,
    pub id: u32,
    #[animate]
    pub max_x: f32,
    pub x: f32,
}

pub fn run_marked_remote_and_substr(ops: &[(Op, Fault)], variant: u64) -> Option<String> {
    // marked remote proxy: only `x` is animated; `size` and `between` are listed but excluded
    let initial = Panel { before: 5, x: 1.0, between: 2.5, size: 10, after: -9 };
    let foreign = Panel { before: 500, x: 40.0, between: -2.5, size: 700, after: 9000 };
    let tl = TimelineBuilder::build(
        PanelProxy::timeline()
            .duration_seconds(1.0)
            .reverse(variant & 1 == 1)
            .keyframe(PanelProxy::keyframe_from(&foreign, 0.0))
            .keyframe(PanelProxy::keyframe(1.0).x(7.0)),
    );
    for t in [0.0f32, 0.4, 1.0, 1.6, 5.0] {
        let mut v = initial.clone();
        tl.update(&mut v, t);
        if v.size != initial.size || v.between != initial.between || v.before != initial.before || v.after != initial.after {
            return Some(format!(
                "marked remote proxy: Timeline::update at t={t} changed an excluded field: size {} between {} before {} after {}",
                v.size, v.between, v.before, v.after
            ));
        }
    }
    // substring names
    let s0 = Substr { width: 1.0, id: 5, max_x: 2.0, x: 3.0 };
    let sf = Substr { width: 100.0, id: 254, max_x: 200.0, x: -300.0 };
    let sg = Substr { width: -10.0, id: 77, max_x: 20.0, x: 900.0 };
    let mut anim = StateAnimatorBuilder::new()
        .from_state(Sh::C)
        .from_values(s0.clone())
        .on(
            Sh::A,
            // (foreign contents in the excluded fields at both ends, and a second cycle, in which
            // the blended start no longer stands in for the first keyframe)
            Substr::timeline()
                .duration_seconds(1.5)
                .repeat(Repeat::Times(1))
                .keyframe(Substr::keyframe_from(&sf, 0.0))
                .keyframe(Substr::keyframe_from(&sg, 1.0)),
        )
        .build();
    for (i, (op, _)) in ops.iter().enumerate() {
        match op {
            Op::Advance(dt) => anim.advance(*dt),
            Op::SetState(s) => anim.set_state(&SH[*s as usize % 3]),
        }
        let v = anim.current_values();
        if v.id != s0.id || v.x != s0.x {
            return Some(format!(
                "shape Substr: operation {i} ({op:?}) changed an excluded field whose name is a substring of a marked one: id {} x {}",
                v.id, v.x
            ));
        }
    }
    None
}

/// Excluded fields whose *other* attributes mention the marker word (a doc comment, a lint
/// attribute), and animated fields that carry the marker more than once - as many markers as the
/// struct has fields, with the first and the last field excluded.
#[derive(Animate, Clone, Debug, Default, PartialEq)]
pub struct Wording {
    /// Constant - this one is not animated.
    pub id: u32,
    #[animate]
    #[animate]
    #[animate]
    pub x: f32,
    #[animate]
    pub y: f32,
    #[doc = "never animate this"]
    pub ticks: u32,
}

/// ... and the same with exactly as many markers as fields in a three-field struct.
#[derive(Animate, Clone, Debug, Default, PartialEq)]
pub struct Wording3 {
    #[animate]
    #[animate]
    pub x: f32,
    /// not an animated field
    pub clicks: u16,
    #[animate]
    pub y: f32,
}

pub fn run_wording(ops: &[(Op, Fault)], variant: u64) -> Option<String> {
    let w0 = Wording { id: 42, x: 1.0, y: 2.0, ticks: 1000 };
    let wf = Wording { id: 7, x: 100.0, y: -200.0, ticks: 3 };
    let wg = Wording { id: 9000, x: -1.0, y: 2.5, ticks: 77 };
    let v0 = Wording3 { x: 1.0, clicks: 99, y: 2.0 };
    let vf = Wording3 { x: -50.0, clicks: 1, y: 75.0 };
    let vg = Wording3 { x: 5.0, clicks: 640, y: -7.5 };
    let mut anim = StateAnimatorBuilder::new()
        .from_state(Sh::C)
        .from_values(w0.clone())
        .on(
            Sh::A,
            Wording::timeline()
                .duration_seconds(1.25)
                .reverse(variant & 1 == 1)
                .keyframe(Wording::keyframe_from(&wf, 0.0))
                .keyframe(Wording::keyframe_from(&wg, 1.0)),
        )
        .on(Sh::B, Wording::timeline().duration_seconds(0.5).keyframe(Wording::keyframe(1.0).x(9.0)))
        .build();
    let mut anim3 = StateAnimatorBuilder::new()
        .from_state(Sh::C)
        .from_values(v0.clone())
        .on(
            Sh::A,
            Wording3::timeline()
                .duration_seconds(0.75)
                .repeat(if variant & 2 == 2 { Repeat::Times(1) } else { Repeat::None })
                .keyframe(Wording3::keyframe_from(&vf, 0.0))
                .keyframe(Wording3::keyframe_from(&vg, 1.0)),
        )
        .build();
    for (i, (op, _)) in ops.iter().enumerate() {
        match op {
            Op::Advance(dt) => {
                anim.advance(*dt);
                anim3.advance(*dt);
            }
            Op::SetState(s) => {
                anim.set_state(&SH[*s as usize % 3]);
                anim3.set_state(&SH[*s as usize % 3]);
            }
        }
        let v = anim.current_values();
        if v.id != w0.id || v.ticks != w0.ticks {
            return Some(format!(
                "shape Wording: operation {i} ({op:?}) changed an excluded field (its doc text mentions the marker word / other fields carry repeated markers): id {} ticks {} (must stay 42 / 1000)",
                v.id, v.ticks
            ));
        }
        let v = anim3.current_values();
        if v.clicks != v0.clicks {
            return Some(format!(
                "shape Wording3: operation {i} ({op:?}) changed the excluded field clicks to {} (must stay 99)",
                v.clicks
            ));
        }
    }
    None
}

pub const SHAPE_NAMES: [&str; 10] = [
    "OneOfThree", "OneOfTwo", "TwoOfThree", "ThreeOfFive", "Documented", "Mixed", "RemoteProxy", "Lone",
    "MarkedRemoteAndSubstr", "Wording",
];

pub fn run_shape(which: usize, ops: &[(Op, Fault)], variant: u64) -> Option<String> {
    match which % 10 {
        0 => run_one_of_three(ops, variant),
        1 => run_one_of_two(ops, variant),
        2 => run_two_of_three(ops, variant),
        3 => run_three_of_five(ops, variant),
        4 => run_documented(ops, variant),
        5 => run_mixed(ops, variant),
        6 => run_remote(ops, variant),
        7 => run_lone(ops, variant),
        8 => run_marked_remote_and_substr(ops, variant),
        _ => run_wording(ops, variant),
    }
}

// ---------------------------------------------------------------------------------------------
// State types: the animator must not care what kind of type the state is
// ---------------------------------------------------------------------------------------------

#[derive(Clone, Copy, Debug, Default, Eq, PartialEq, State)]
pub enum Load {
    #[default]
    Light,
    Heavy,
}

/// A state type with a payload-carrying variant (`Busy(Light)` and `Busy(Heavy)` are different
/// states with the same discriminant).
#[derive(Clone, Copy, Debug, Default, Eq, PartialEq, State)]
pub enum Mode {
    #[default]
    Idle,
    Busy(Load),
    Off,
}

const MODES: [Mode; 4] = [Mode::Idle, Mode::Busy(Load::Light), Mode::Busy(Load::Heavy), Mode::Off];

/// Drives two animators with the same timelines and the same trace - one keyed by the plain
/// five-variant `St` (only its first four states are used), one keyed by the nested `Mode` - and
/// returns a description of the first difference in values / current state / is_ended.
pub fn state_type_probe(spec: &simmodel::AnimSpec, ops: &[(Op, Fault)]) -> Option<String> {
    use simmodel::{St, Vals, ValsTimeline};
    let initial = (spec.initial_state as usize) % 4;
    let mut plain = StateAnimatorBuilder::<St, ValsTimeline>::new()
        .from_state(St::from_index(initial))
        .from_values(spec.initial_values.clone());
    let mut nested = StateAnimatorBuilder::<Mode, ValsTimeline>::new()
        .from_state(MODES[initial])
        .from_values(spec.initial_values.clone());
    for i in 0..4 {
        if let Some(m) = &spec.states[i] {
            plain = plain.on(St::from_index(i), m.build());
            nested = nested.on(MODES[i], m.build());
        }
    }
    let (mut plain, mut nested) = (plain.build(), nested.build());
    let same = |x: &Vals, y: &Vals| simmodel::vals_differ(x, y).is_none();
    for (i, (op, _)) in ops.iter().enumerate() {
        match op {
            Op::Advance(dt) => {
                plain.advance(*dt);
                nested.advance(*dt);
            }
            Op::SetState(s) => {
                let s = *s as usize % 4;
                plain.set_state(&St::from_index(s));
                nested.set_state(&MODES[s]);
            }
        }
        let ps = plain.current_state().index();
        let ns = MODES.iter().position(|m| m == nested.current_state()).unwrap_or(99);
        if ps != ns {
            return Some(format!(
                "after operation {i} ({op:?}) the animator keyed by a payload-carrying state type is in {:?}, the one keyed by a plain enum in state {ps}",
                nested.current_state()
            ));
        }
        if !same(plain.current_values(), nested.current_values()) || plain.is_ended() != nested.is_ended() {
            return Some(format!(
                "after operation {i} ({op:?}) two animators with the same timelines and history differ only in their state *type*: {} ended={} vs {} ended={}",
                simmodel::vals_brief(plain.current_values()), plain.is_ended(),
                simmodel::vals_brief(nested.current_values()), nested.is_ended()
            ));
        }
    }
    None
}

// ---------------------------------------------------------------------------------------------
// f64 properties (C20): finite in, finite out
// ---------------------------------------------------------------------------------------------

#[derive(Animate, Clone, Debug, Default, PartialEq)]
pub struct Wide {
    #[animate]
    pub p: f64,
    #[animate]
    pub q: f64,
    pub keep: u8,
}

/// A property that every keyframe holds at one and the same extreme value - the largest finite f32,
/// or close to it - must show that value at every time, whatever easing is in force: a convex or
/// overshooting combination of two equal numbers is that number. (The animator enters the animated
/// states from the same value, so no blend from elsewhere is involved; the other property moves
/// between moderate values under the same easing.)
#[derive(Animate, Clone, Debug, Default, PartialEq)]
pub struct Peak {
    pub x: f32,
    pub y: f32,
}

pub fn extreme_constant_probe(ops: &[(Op, Fault)], variant: u64) -> Option<String> {
    let c: f32 = match variant % 4 {
        0 => f32::MAX,
        1 => -f32::MAX,
        2 => 3.3e38,
        _ => -3.2e38,
    };
    let easing = match (variant >> 2) % 6 {
        0 => Easing::OutBack,
        1 => Easing::InBack,
        2 => Easing::InOutBack,
        3 => Easing::OutExpo,
        4 => Easing::Linear,
        _ => Easing::InOutCirc,
    };
    let tl = |e: Easing| {
        Peak::timeline()
            .duration_seconds(1.25)
            .default_easing(e)
            .reverse((variant >> 5) & 1 == 1)
            .repeat(Repeat::Times(1))
            .keyframe(Peak::keyframe(0.0).x(c).y(-3.0))
            .keyframe(Peak::keyframe(0.5).x(c))
            .keyframe(Peak::keyframe(1.0).x(c).y(40.0))
    };
    let held = |v: &Peak, what: &str| -> Option<String> {
        // (finite, and the constant up to the rounding of the weighted sum)
        if v.x.is_finite() && (v.x as f64 - c as f64).abs() <= 8.0 * f32::EPSILON as f64 * c.abs() as f64 && v.y.is_finite() {
            None
        } else {
            Some(format!(
                "a property held at {c:e} by every keyframe (easing {easing:?}): {what} shows x = {:e}, y = {:e}",
                v.x, v.y
            ))
        }
    };
    let bare = TimelineBuilder::build(tl(easing.clone()));
    for i in 0..=50 {
        let t = i as f32 * 0.0625;
        let mut v = Peak { x: c, y: 0.0 };
        bare.update(&mut v, t);
        if let Some(d) = held(&v, &format!("Timeline::update at t={t}")) {
            return Some(d);
        }
    }
    let mut anim = StateAnimatorBuilder::new()
        .from_state(Sh::C)
        .from_values(Peak { x: c, y: 0.0 })
        .on(Sh::A, tl(easing.clone()))
        .on(Sh::B, tl(Easing::OutBack).duration_seconds(0.75))
        .build();
    for (i, (op, _)) in ops.iter().enumerate() {
        match op {
            Op::Advance(dt) => anim.advance(*dt),
            Op::SetState(s) => anim.set_state(&SH[*s as usize % 3]),
        }
        if let Some(d) = held(anim.current_values(), &format!("operation {i} ({op:?})")) {
            return Some(d);
        }
    }
    None
}

/// Segments whose two ends are both exactly zero, values below f32's smallest normal number, large
/// magnitudes of both signs: every value an f64 property shows must stay finite.
pub fn f64_probe(ops: &[(Op, Fault)], variant: u64) -> Option<String> {
    let tiny = if variant & 1 == 1 { 1.0e-40 } else { 0.0 };
    let big = if variant & 2 == 2 { 3.0e38 } else { 12.5 };
    let tl = || {
        Wide::timeline()
            .duration_seconds(1.5)
            .reverse(variant & 4 == 4)
            .repeat(Repeat::Times(1))
            .keyframe(Wide::keyframe(0.0).p(0.0).q(-big))
            .keyframe(Wide::keyframe(0.25).p(0.0))
            .keyframe(Wide::keyframe(0.5).p(tiny).q(big))
            .keyframe(Wide::keyframe(0.75).p(-0.0))
            .keyframe(Wide::keyframe(1.0).p(0.0).q(0.0))
    };
    let finite = |v: &Wide, what: &str| -> Option<String> {
        if v.p.is_finite() && v.q.is_finite() {
            None
        } else {
            Some(format!("f64 properties: {what} produced p={} q={} from finite keyframes", v.p, v.q))
        }
    };
    let bare = TimelineBuilder::build(tl());
    for i in 0..40 {
        let t = i as f32 * 0.1;
        let mut v = Wide::default();
        bare.update(&mut v, t);
        if let Some(d) = finite(&v, &format!("Timeline::update at t={t}")) {
            return Some(d);
        }
    }
    let mut anim = StateAnimatorBuilder::new()
        .from_state(Sh::C)
        .from_values(Wide { p: 0.0, q: 0.0, keep: 1 })
        .on(Sh::A, tl())
        .on(Sh::B, Wide::timeline().keyframe(Wide::keyframe(1.0).p(0.0).q(0.0)))
        .build();
    for (i, (op, _)) in ops.iter().enumerate() {
        match op {
            Op::Advance(dt) => anim.advance(*dt),
            Op::SetState(s) => anim.set_state(&SH[*s as usize % 3]),
        }
        if let Some(d) = finite(anim.current_values(), &format!("operation {i} ({op:?})")) {
            return Some(d);
        }
    }
    None
}


/// Properties wider than an f32 can hold exactly: 64-bit integers above 2^24 and f64 values that
/// are not f32 values. An animation that is over rests on the terminal keyframe's values (C07) -
/// to the precision `Lerp` documents for such types -, stays there, and nothing on the way panics
/// or differs between debug and release (C20).
#[derive(Animate, Clone, Debug, Default, PartialEq)]
pub struct WideInts {
    #[animate]
    pub up: u64,
    #[animate]
    pub down: u64,
    #[animate]
    pub signed: i64,
    #[animate]
    pub size: usize,
    #[animate]
    pub fine: f64,
    pub keep: u64,
}

pub const WIDE_START: WideInts = WideInts { up: 5, down: 1_000_000_007, signed: -1_000_000_007, size: 3, fine: 0.1, keep: 0xFEED };
pub const WIDE_END: WideInts = WideInts { up: 1_000_000_007, down: 5, signed: 4_000_000_009, size: 2_000_000_011, fine: 0.7, keep: 0xFEED };

/// Returns (clause, description) of the first violated clause, and feeds every observation to
/// `observe` (for the cross-profile comparison).
pub fn wide_ints_probe(ops: &[(Op, Fault)], variant: u64, observe: &mut dyn FnMut(&WideInts, bool)) -> Option<(&'static str, String)> {
    let reverse = variant & 1 == 1;
    let repeat = if variant & 2 == 2 { Repeat::Times(2) } else { Repeat::None };
    let delay = if variant & 4 == 4 { 0.5 } else { 0.0 };
    let kf = |v: &WideInts, pos: f32| WideInts::keyframe(pos).up(v.up).down(v.down).signed(v.signed).size(v.size).fine(v.fine);
    let mid = WideInts { up: 16_777_217, down: 33_554_435, signed: -16_777_219, size: 16_777_221, fine: 0.3, keep: 0 };
    let tl = || {
        WideInts::timeline()
            .duration_seconds(1.0)
            .delay_seconds(delay)
            .reverse(reverse)
            .repeat(repeat)
            .keyframe(kf(&WIDE_START, 0.0))
            .keyframe(kf(&mid, 0.5))
            .keyframe(kf(&WIDE_END, 1.0))
    };
    let terminal = if reverse { WIDE_START } else { WIDE_END };
    // (`Lerp` documents that primitives are interpolated in 32-bit floating point, "so there may
    // be some precision loss" for wider types: a value is on a keyframe if it is the keyframe's
    // value or that value as the nearest f32)
    let same = |v: &WideInts, t: &WideInts| {
        (v.up == t.up || v.up == (t.up as f32) as u64)
            && (v.down == t.down || v.down == (t.down as f32) as u64)
            && (v.signed == t.signed || v.signed == (t.signed as f32) as i64)
            && (v.size == t.size || v.size == (t.size as f32) as usize)
            && (v.fine == t.fine || v.fine == (t.fine as f32) as f64)
            && v.keep == t.keep
    };
    // a bare timeline far beyond its end, and exactly on its keyframes
    let bare = TimelineBuilder::build(tl());
    let mut v = WIDE_START.clone();
    bare.update(&mut v, 1.0e6);
    observe(&v, true);
    if !same(&v, &terminal) {
        return Some(("terminal-values", format!("wide properties: Timeline::update far beyond the end gives {v:?}, the terminal keyframe is {terminal:?}")));
    }
    let mut anim = StateAnimatorBuilder::new()
        .from_state(Sh::C)
        .from_values(WIDE_START.clone())
        .on(Sh::A, tl())
        .build();
    anim.set_state(&Sh::A);
    let mut rested: Option<WideInts> = None;
    let mut step = |anim: &mut dyn StateAnimator<State = Sh, Values = WideInts>, what: String, rested: &mut Option<WideInts>| -> Option<(&'static str, String)> {
        let v = anim.current_values().clone();
        let ended = anim.is_ended();
        observe(&v, ended);
        if !v.fine.is_finite() {
            return Some(("non-finite-value", format!("wide properties: {what}: fine = {}", v.fine)));
        }
        if anim.current_state() == &Sh::A {
            if ended && !same(&v, &terminal) {
                return Some(("terminal-values", format!("wide properties: {what}: is_ended but the values are {v:?}, the terminal keyframe is {terminal:?}")));
            }
            if let Some(r) = rested {
                if &v != r {
                    return Some(("values-moved-after-end", format!("wide properties: {what}: values moved after the end from {r:?} to {v:?}")));
                }
            }
            if ended && rested.is_none() {
                *rested = Some(v);
            }
        } else {
            *rested = None;
        }
        None
    };
    for (i, (op, _)) in ops.iter().enumerate() {
        match op {
            Op::Advance(dt) => anim.advance(*dt),
            // (A is the only animated state: leaving it freezes the animation, coming back resumes it)
            Op::SetState(s) => anim.set_state(if *s % 2 == 0 { &Sh::A } else { &Sh::C }),
        }
        if let Some(d) = step(&mut anim, format!("operation {i} ({op:?})"), &mut rested) {
            return Some(d);
        }
    }
    anim.set_state(&Sh::A);
    anim.advance(1.0e6);
    if !anim.is_ended() {
        return Some(("not-ended-at-or-after-total", "wide properties: a finite animation is not over after a further 1e6 s".into()));
    }
    step(&mut anim, "a final advance of 1e6 s".into(), &mut rested)
}
