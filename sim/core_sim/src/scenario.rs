//! Scenario = animator specification + operation trace, its generator (virtual clock, frame
//! pacer, user process, fault injector), JSON form and shrink candidates.

use simkit::json::{f32_from_json, f32_to_json, Json};
use simkit::rng::Rng;
use simmodel::gen::{gen_anim_spec, gen_knobs_with, Knobs};
use simmodel::oracle;
use simmodel::*;
use std::time::Duration;

#[derive(Clone, Copy, Debug, PartialEq, Eq, Hash, PartialOrd, Ord)]
pub enum Fault {
    /// Ordinary frame / ordinary user event.
    None,
    Jitter,
    ZeroFrame,
    Hitch,
    Suspend,
    Astronomical,
    LandOnBoundary,
    NearBoundary,
    EventBurst,
    DuplicateEvent,
    Flicker,
    ReturnToPrevious,
    EventAfterEnd,
    /// Tens of thousands of zero-length frames before this frame (an application idling in one
    /// state for a long while).
    Idle,
}

pub const ALL_FAULTS: [Fault; 14] = [
    Fault::None,
    Fault::Jitter,
    Fault::ZeroFrame,
    Fault::Hitch,
    Fault::Suspend,
    Fault::Astronomical,
    Fault::LandOnBoundary,
    Fault::NearBoundary,
    Fault::EventBurst,
    Fault::DuplicateEvent,
    Fault::Flicker,
    Fault::ReturnToPrevious,
    Fault::EventAfterEnd,
    Fault::Idle,
];

impl Fault {
    pub fn name(self) -> &'static str {
        match self {
            Fault::None => "none",
            Fault::Jitter => "jitter",
            Fault::ZeroFrame => "zero_frame",
            Fault::Hitch => "hitch",
            Fault::Suspend => "suspend",
            Fault::Astronomical => "astronomical",
            Fault::LandOnBoundary => "land_on_boundary",
            Fault::NearBoundary => "near_boundary",
            Fault::EventBurst => "event_burst",
            Fault::DuplicateEvent => "duplicate_event",
            Fault::Flicker => "flicker",
            Fault::ReturnToPrevious => "return_to_previous",
            Fault::EventAfterEnd => "event_after_end",
            Fault::Idle => "idle",
        }
    }
    pub fn from_name(s: &str) -> Fault {
        ALL_FAULTS
            .iter()
            .copied()
            .find(|f| f.name() == s)
            .unwrap_or(Fault::None)
    }
}

#[derive(Clone, Copy, Debug, PartialEq)]
pub enum Op {
    Advance(f32),
    SetState(u8),
}

#[derive(Clone, Debug, PartialEq)]
pub struct Scn {
    pub spec: AnimSpec,
    pub ops: Vec<(Op, Fault)>,
    /// All times are multiples of 1/8 s (exact comparisons are valid).
    pub grid: bool,
    /// Seed for the schedule re-partitions of the C06 monitor.
    pub repartition_seed: u64,
}

pub fn to_json(s: &Scn) -> Json {
    Json::obj()
        .set("grid_exact_eighths", s.grid)
        .set("repartition_seed", s.repartition_seed)
        .set("animator", s.spec.to_json())
        .set(
            "trace",
            Json::Arr(
                s.ops
                    .iter()
                    .map(|(op, f)| {
                        let mut j = match op {
                            Op::Advance(dt) => Json::obj().set("advance", f32_to_json(*dt)),
                            Op::SetState(st) => Json::obj().set("set_state", *st),
                        };
                        if *f != Fault::None {
                            j.put("fault", f.name());
                        }
                        j
                    })
                    .collect(),
            ),
        )
}

pub fn from_json(j: &Json) -> Result<Scn, String> {
    let mut ops = Vec::new();
    for o in j.req("trace")?.as_arr()? {
        let fault = match o.get("fault") {
            Some(f) => Fault::from_name(f.as_str()?),
            None => Fault::None,
        };
        if let Some(dt) = o.get("advance") {
            ops.push((Op::Advance(f32_from_json(dt)?), fault));
        } else if let Some(s) = o.get("set_state") {
            ops.push((Op::SetState(s.as_i64()? as u8), fault));
        } else {
            return Err("bad op".into());
        }
    }
    Ok(Scn {
        spec: AnimSpec::from_json(j.req("animator")?)?,
        ops,
        grid: j.req("grid_exact_eighths")?.as_bool()?,
        repartition_seed: match j.get("repartition_seed") {
            Some(v) => v.as_i64()? as u64,
            None => 0,
        },
    })
}

pub fn size(s: &Scn) -> usize {
    let mut n = s.ops.len() * 4;
    for st in s.spec.states.iter().flatten() {
        n += 3;
        for p in &st.parts {
            n += 3;
            if p.delay != 0.0 {
                n += 1;
            }
            if p.repeat != Rep::None {
                n += 1;
            }
            if p.reverse {
                n += 1;
            }
            if p.easing != 0 {
                n += 1;
            }
            for k in &p.kfs {
                n += 1;
                n += [k.a.is_some(), k.b.is_some(), k.n.is_some(), k.k.is_some()]
                    .iter()
                    .filter(|x| **x)
                    .count();
                if k.easing.is_some() {
                    n += 1;
                }
            }
            // A permuted insertion order counts as more complex than the sorted one.
            if !p.kfs.windows(2).all(|w| w[0].pos <= w[1].pos) {
                n += 1;
            }
        }
    }
    n
}

// ---------------------------------------------------------------------------------------------
// Generator
// ---------------------------------------------------------------------------------------------

/// Bookkeeping the generator needs to aim faults (NOT the oracle; it only steers generation).
struct Book {
    cur: usize,
    prev: usize,
    tau: Duration,
    remembered: Option<(usize, Duration)>,
}

impl Book {
    fn advance(&mut self, dt: f32) {
        if dt.is_finite() && dt >= 0.0 && dt < 1.8e19 {
            self.tau = self.tau.saturating_add(Duration::from_secs_f32(dt));
        } else {
            self.tau = Duration::MAX;
        }
    }
    fn set_state(&mut self, spec: &AnimSpec, s: usize) {
        if s == self.cur {
            return;
        }
        let will = spec.animated(s);
        let was = spec.animated(self.cur);
        match self.remembered {
            Some((rs, p)) if will && rs == s => {
                self.tau = p;
                self.remembered = None;
            }
            _ => {
                if will {
                    self.remembered = None;
                } else if was {
                    self.remembered = Some((self.cur, self.tau));
                }
                self.tau = Duration::ZERO;
            }
        }
        self.prev = self.cur;
        self.cur = s;
    }
}

pub struct TraceKnobs {
    pub period: f32,
    pub jitter: f64,
    pub p_event: f64,
    pub p_zero: f64,
    pub p_hitch: f64,
    pub p_boundary: f64,
    pub p_burst: f64,
    pub p_dup: f64,
    pub p_flicker: f64,
    pub p_return: f64,
    pub p_unanimated_bias: f64,
    pub p_suspend: f64,
    pub p_astro: f64,
    pub n_ops: usize,
}

fn gen_trace_knobs(rng: &mut Rng, k: &Knobs, extreme: bool, fault_free: bool) -> TraceKnobs {
    let period = if k.grid {
        *rng.pick(&[0.125f32, 0.125, 0.25, 0.5, 1.0])
    } else {
        *rng.pick(&[1.0f32 / 240.0, 1.0 / 144.0, 1.0 / 60.0, 1.0 / 30.0, 0.1, 0.37, 1.0])
    };
    // Swarm: each fault kind is enabled for this run with probability 1/2.
    let mut on = |p: f64| -> f64 {
        if fault_free {
            0.0
        } else if rng.chance(0.5) {
            p
        } else {
            0.0
        }
    };
    TraceKnobs {
        period,
        jitter: on(0.5),
        p_zero: on(0.08),
        p_hitch: on(0.08),
        p_boundary: on(0.15),
        p_burst: on(0.25),
        p_dup: on(0.15),
        p_flicker: on(0.15),
        p_return: on(0.35),
        p_unanimated_bias: on(0.3),
        // clock jumps of hours..years and astronomical ones: frequent in the C20 domain, rare
        // (and only off the exact grid) everywhere else
        p_suspend: if extreme { on(0.05) } else if !k.grid { on(0.01) } else { 0.0 },
        p_astro: if extreme { on(0.06) } else if !k.grid { on(0.01) } else { 0.0 },
        p_event: *rng.pick(&[0.1, 0.25, 0.5]),
        n_ops: rng.range(4, 48) as usize,
    }
}

fn eighths(x: f64) -> Option<f32> {
    let m = x * 8.0;
    if m.fract() == 0.0 && (0.0..=262144.0).contains(&m) {
        Some((m / 8.0) as f32)
    } else {
        None
    }
}

pub fn generate(rng: &mut Rng, property: &str, deep: bool) -> Scn {
    let extreme = property == "C20";
    // One run in eight is a fault-free configuration (plain jittered frames + user events), so
    // that relaxed comparisons never hide an ordinary bug.
    let fault_free = rng.below(8) == 0;
    let mut knobs = gen_knobs_with(rng, extreme, property != "C04");
    if property == "C06" && rng.chance(0.5) {
        knobs.grid = true;
    }
    let spec = gen_anim_spec(rng, &knobs);
    let mut tk = gen_trace_knobs(rng, &knobs, extreme, fault_free);
    // thorough tier: a third of the runs use long histories (deeper bounds)
    if (deep && rng.chance(0.33)) || rng.chance(0.04) {
        tk.n_ops = rng.range(48, 200) as usize;
    }
    let mut book = Book {
        cur: spec.initial_state as usize,
        prev: spec.initial_state as usize,
        tau: Duration::ZERO,
        remembered: None,
    };
    let mut ops: Vec<(Op, Fault)> = Vec::new();
    let mut just_ended = false;
    let unanimated: Vec<usize> = (0..NUM_STATES).filter(|s| !spec.animated(*s)).collect();
    let animated: Vec<usize> = (0..NUM_STATES).filter(|s| spec.animated(*s)).collect();

    // A marathon run continues the finished trace with a long tail (hundreds to thousands of
    // operations in one animator's life; in half of them with rare events, i.e. hundreds of frames
    // inside one state). The tail is drawn from a stream of its own, forked from the last value
    // of the main stream, so the scenarios of all other runs - and the first part of this one -
    // are what they were before marathon runs existed.
    let mut target_ops = tk.n_ops;
    let mut tail_rng: Option<Rng> = None;
    let mut repartition_seed = 0u64;
    loop {
    while ops.len() < target_ops {
        let rng: &mut Rng = match tail_rng.as_mut() {
            Some(r) => r,
            None => &mut *rng,
        };
        // ---- user process: events that arrived since the last frame -------------------------
        let p_event = if just_ended { tk.p_event.max(0.5) } else { tk.p_event };
        if rng.chance(p_event) {
            let burst = if rng.chance(tk.p_burst) {
                rng.range(2, 4) as usize
            } else {
                1
            };
            let mut flicker_pair: Option<(usize, usize)> = None;
            for bi in 0..burst {
                let (target, fault) = if let Some((x, y)) = flicker_pair {
                    (if bi % 2 == 0 { x } else { y }, Fault::Flicker)
                } else if rng.chance(tk.p_dup) {
                    (book.cur, Fault::DuplicateEvent)
                } else if rng.chance(tk.p_flicker) && burst > 1 {
                    let other = rng.usize_below(NUM_STATES);
                    flicker_pair = Some((book.cur, other));
                    (other, Fault::Flicker)
                } else if rng.chance(tk.p_return) {
                    let t = match book.remembered {
                        Some((s, _)) if rng.chance(0.5) => s,
                        _ => book.prev,
                    };
                    (t, Fault::ReturnToPrevious)
                } else if rng.chance(tk.p_unanimated_bias) && !unanimated.is_empty() {
                    (*rng.pick(&unanimated), Fault::None)
                } else if !animated.is_empty() && rng.chance(0.5) {
                    (*rng.pick(&animated), Fault::None)
                } else {
                    (rng.usize_below(NUM_STATES), Fault::None)
                };
                let fault = if burst > 1 && fault == Fault::None {
                    Fault::EventBurst
                } else if just_ended && fault == Fault::None {
                    Fault::EventAfterEnd
                } else {
                    fault
                };
                ops.push((Op::SetState(target as u8), fault));
                book.set_state(&spec, target);
            }
        }
        // ---- frame pacer + fault injector: the delta of the next frame ----------------------
        let cur_m = spec.states[book.cur].as_ref();
        let tau_s = book.tau.as_secs_f64();
        let mut dt: Option<(f32, Fault)> = None;
        // (a state whose timeline outlasts the clock's range gets astronomical frames often:
        // nothing else can bring its end within reach)
        let outlasts_clock = cur_m.map(|m| oracle::merged_total(m).map(|t| t > 1.0e19).unwrap_or(false)).unwrap_or(false);
        if rng.chance(if outlasts_clock { 0.35 } else { tk.p_astro }) {
            // including the largest number of seconds a Duration can hold (2^64, as f32) and
            // its two neighbours
            let dmax = Duration::MAX.as_secs_f32();
            let v = *rng.pick(&[
                1e10f32,
                1e15,
                1.8e19,
                f32::from_bits(dmax.to_bits() - 1),
                dmax,
                f32::from_bits(dmax.to_bits() + 1),
                1.9e19,
                1e20,
                1e30,
                f32::MAX,
                // (not a finite time, but a dt >= 0 all the same: the clock saturates)
                f32::INFINITY,
            ]);
            dt = Some((v, Fault::Astronomical));
        } else if rng.chance(tk.p_suspend) {
            let v = *rng.pick(&[3600.0f32, 86400.0, 3.15e7, 3.15e9]) * (1.0 + rng.unit() as f32);
            dt = Some((v, Fault::Suspend));
        } else if rng.chance(tk.p_boundary) {
            if let Some(m) = cur_m {
                let bs = oracle::boundaries(m, 4);
                let ahead: Vec<f64> = bs.into_iter().filter(|b| *b > tau_s).collect();
                if !ahead.is_empty() {
                    let b = ahead[rng.usize_below(ahead.len().min(6))];
                    let d = b - tau_s;
                    if knobs.grid {
                        if let Some(e) = eighths(d) {
                            dt = Some((e, Fault::LandOnBoundary));
                        }
                    } else {
                        let base = d as f32;
                        let v = match rng.below(7) {
                            0 => base,
                            1 => f32::from_bits(base.to_bits().saturating_sub(1)),
                            2 => f32::from_bits(base.to_bits() + 1),
                            3 => (d + if rng.chance(0.5) { 1e-9 } else { -1e-9 }).max(0.0) as f32,
                            // a few ulps / a few hundred nanoseconds either side
                            4 => f32::from_bits(base.to_bits().saturating_sub(rng.range(2, 16) as u32)),
                            5 => f32::from_bits(base.to_bits() + rng.range(2, 16) as u32),
                            _ => (d + (rng.range(-400, 400) as f64) * 1e-9).max(0.0) as f32,
                        };
                        let fault = if v == base {
                            Fault::LandOnBoundary
                        } else {
                            Fault::NearBoundary
                        };
                        if v.is_finite() && v >= 0.0 {
                            dt = Some((v, fault));
                        }
                    }
                }
            }
        }
        if dt.is_none() {
            if rng.chance(tk.p_zero) {
                // (a zero-length frame may carry a sign bit: -0.0 is a valid zero)
                dt = Some((if rng.chance(0.2) { -0.0 } else { 0.0 }, Fault::ZeroFrame));
            } else if rng.chance(tk.p_hitch) {
                let total = cur_m.and_then(oracle::merged_total).unwrap_or(4.0).min(600.0);
                let v = if knobs.grid {
                    (rng.range(4, 64) as f32 / 8.0).max(((total * 8.0).ceil() / 8.0) as f32 * rng.range(0, 2) as f32)
                } else {
                    (0.5 + rng.unit() * (total * 2.0 + 2.0)) as f32
                };
                dt = Some((v, Fault::Hitch));
            }
        }
        let (dt, fault) = dt.unwrap_or_else(|| {
            if knobs.grid {
                let mult = if rng.chance(tk.jitter) { rng.range(1, 4) } else { 1 };
                (
                    tk.period * mult as f32,
                    if mult > 1 { Fault::Jitter } else { Fault::None },
                )
            } else if rng.chance(tk.jitter) {
                (
                    (tk.period as f64 * (0.25 + 1.75 * rng.unit())) as f32,
                    Fault::Jitter,
                )
            } else {
                (tk.period, Fault::None)
            }
        });
        let was_ended = cur_m
            .and_then(oracle::merged_total)
            .map(|t| tau_s >= t)
            .unwrap_or(false);
        ops.push((Op::Advance(dt), fault));
        book.advance(dt);
        let now_ended = cur_m
            .and_then(oracle::merged_total)
            .map(|t| book.tau.as_secs_f64() >= t)
            .unwrap_or(false);
        just_ended = now_ended && !was_ended;
    }
    ops.truncate(target_ops.max(1));
    if tail_rng.is_some() {
        break;
    }
    repartition_seed = rng.next_u64() >> 1;
    // (Not with an overshooting easing in the configuration: every re-blend under a Back curve
    // starts by moving away from its target, and hundreds of re-blends in a row can ratchet a
    // value outwards exponentially - out of an integer's range, which is the panic `Lerp`
    // documents, not a defect. Found by the first thorough sweep with marathon runs: three
    // alarms of my own making in 1.2e8 runs.)
    let overshooting = spec.states.iter().flatten().any(|m| m.parts.iter().any(|p| p.uses_back()));
    if repartition_seed % MARATHON_ONE_IN == 0 && !overshooting {
        let mut r = Rng::new(repartition_seed ^ 0x6d61_7261_7468_6f6e);
        target_ops = ops.len() + r.range(250, if property == "C06" || property == "C20" { 700 } else if deep { 4000 } else { 1500 }) as usize;
        if r.chance(0.5) {
            tk.p_event = 0.004;
        }
        tail_rng = Some(r);
    } else {
        break;
    }
    }
    // One run in 400: one frame of the trace arrives after a long idle period (`Fault::Idle`).
    if (repartition_seed >> 32) % 400 == 0 {
        let frames: Vec<usize> = (0..ops.len()).filter(|i| matches!(ops[*i].0, Op::Advance(_))).collect();
        if !frames.is_empty() {
            let i = frames[((repartition_seed >> 40) % frames.len() as u64) as usize];
            ops[i].1 = Fault::Idle;
        }
    }
    // One run in nine: two animated states share one animation definition (the second gets a copy
    // of the first's specification; `AnimSpec::build` then installs clones of one timeline).
    // Decided from the last value of the stream, so that no other draw moves.
    let mut spec = spec;
    if (repartition_seed >> 8) % 9 == 0 && animated.len() >= 2 {
        let i = animated[((repartition_seed >> 16) % animated.len() as u64) as usize];
        let j = animated[((repartition_seed >> 24) % animated.len() as u64) as usize];
        if i != j {
            spec.states[j] = spec.states[i].clone();
        }
    }
    Scn {
        spec,
        ops,
        grid: knobs.grid,
        repartition_seed,
    }
}

/// One run in this many is a marathon run (see `generate`).
pub const MARATHON_ONE_IN: u64 = 97;

// ---------------------------------------------------------------------------------------------
// Shrinking
// ---------------------------------------------------------------------------------------------

pub fn shrink_candidates(s: &Scn) -> Vec<Scn> {
    let mut out: Vec<Scn> = Vec::new();
    let n = s.ops.len();
    // 1. drop chunks of the trace (halves, quarters ... single ops)
    let mut len = n / 2;
    while len >= 1 {
        let mut start = 0;
        while start + len <= n {
            let mut c = s.clone();
            c.ops.drain(start..start + len);
            if !c.ops.is_empty() {
                out.push(c);
            }
            start += len;
        }
        len /= 2;
    }
    // 2. merge adjacent advances (grid: exact sum)
    for i in 0..n.saturating_sub(1) {
        if let ((Op::Advance(x), _), (Op::Advance(y), _)) = (s.ops[i], s.ops[i + 1]) {
            let sum = x + y;
            if sum.is_finite() {
                let mut c = s.clone();
                c.ops[i] = (Op::Advance(sum), Fault::None);
                c.ops.remove(i + 1);
                out.push(c);
            }
        }
    }
    // 3. drop whole state timelines, merged components, keyframes, keyframe properties
    for st in 0..NUM_STATES {
        if s.spec.states[st].is_some() {
            let mut c = s.clone();
            c.spec.states[st] = None;
            out.push(c);
        }
        if let Some(m) = &s.spec.states[st] {
            if m.parts.len() > 1 {
                for p in 0..m.parts.len() {
                    let mut c = s.clone();
                    c.spec.states[st].as_mut().unwrap().parts.remove(p);
                    out.push(c);
                }
            }
            for (pi, part) in m.parts.iter().enumerate() {
                let n_k = part.kfs.len();
                if n_k > 48 {
                    // very many keyframes: drop chunks (halves ... 1/16), never one candidate per
                    // keyframe (that would be quadratic in memory)
                    let mut len = n_k / 2;
                    while len >= (n_k / 16).max(1) {
                        let mut start = 0;
                        while start + len <= n_k {
                            let mut c = s.clone();
                            c.spec.states[st].as_mut().unwrap().parts[pi].kfs.drain(start..start + len);
                            out.push(c);
                            start += len;
                        }
                        len /= 2;
                    }
                } else {
                    for ki in 0..n_k {
                        let mut c = s.clone();
                        c.spec.states[st].as_mut().unwrap().parts[pi].kfs.remove(ki);
                        out.push(c);
                    }
                }
            }
        }
    }
    // 4. simplify arguments of single ops
    for i in 0..n {
        match s.ops[i].0 {
            Op::Advance(dt) => {
                for cand in [0.0f32, 0.125, 0.5, 1.0, (dt * 8.0).round() / 8.0, dt / 2.0] {
                    if cand != dt && cand.is_finite() && cand >= 0.0 && (!s.grid || (cand * 8.0).fract() == 0.0) {
                        let mut c = s.clone();
                        c.ops[i] = (Op::Advance(cand), s.ops[i].1);
                        out.push(c);
                    }
                }
            }
            Op::SetState(st) => {
                for cand in 0..st {
                    let mut c = s.clone();
                    c.ops[i] = (Op::SetState(cand), s.ops[i].1);
                    out.push(c);
                }
            }
        }
    }
    // 5. simplify timeline configuration
    for st in 0..NUM_STATES {
        let Some(m) = &s.spec.states[st] else { continue };
        for (pi, part) in m.parts.iter().enumerate() {
            let mut push = |f: &dyn Fn(&mut TlSpec)| {
                let mut c = s.clone();
                f(&mut c.spec.states[st].as_mut().unwrap().parts[pi]);
                if c != *s {
                    out.push(c);
                }
            };
            push(&|t| t.easing = 0);
            push(&|t| t.delay = 0.0);
            push(&|t| t.repeat = Rep::None);
            push(&|t| {
                if let Rep::Times(n) = t.repeat {
                    if n > 1 {
                        t.repeat = Rep::Times(1)
                    }
                }
            });
            push(&|t| t.reverse = false);
            push(&|t| t.duration = 1.0);
            push(&|t| t.kfs.sort_by(|a, b| a.pos.total_cmp(&b.pos)));
            for ki in 0..part.kfs.len().min(12) {
                push(&|t| t.kfs[ki].easing = None);
                push(&|t| t.kfs[ki].via_from = false);
                push(&|t| {
                    if !t.kfs[ki].via_from {
                        t.kfs[ki].a = None
                    }
                });
                push(&|t| {
                    if !t.kfs[ki].via_from {
                        t.kfs[ki].b = None
                    }
                });
                push(&|t| {
                    if !t.kfs[ki].via_from {
                        t.kfs[ki].n = None
                    }
                });
                push(&|t| {
                    if !t.kfs[ki].via_from {
                        t.kfs[ki].k = None
                    }
                });
                push(&|t| {
                    if let Some(v) = t.kfs[ki].a {
                        t.kfs[ki].a = Some(v.round())
                    }
                });
                push(&|t| {
                    if let Some(v) = t.kfs[ki].b {
                        t.kfs[ki].b = Some(v.round())
                    }
                });
            }
        }
    }
    // 6. simplify initial values / state
    {
        let mut c = s.clone();
        c.spec.initial_values = Vals {
            tag: TAG_SENTINEL,
            ..Vals::default()
        };
        if c != *s {
            out.push(c);
        }
        if s.spec.initial_state != 0 {
            let mut c = s.clone();
            c.spec.initial_state = 0;
            out.push(c);
        }
    }
    out.retain(|c| {
        c.spec
            .states
            .iter()
            .flatten()
            .all(simmodel::gen::merged_is_in_domain)
    });
    out
}
