//! Executes a scenario against the real `StateAnimator` with the monitors of one property.

use crate::model::{to_duration, Model};
use crate::scenario::*;
use mina::prelude::*;
use simkit::driver::{RunOutcome, Violation};
use simkit::panic::catch;
use simkit::rng::Rng;
use simkit::{hash_words, ObsHash};
use simmodel::oracle::{self, Phase, PropVal};
use simmodel::*;
use std::time::Duration;

/// Zero-length frames delivered before an `Advance` marked `Fault::Idle`.
const IDLE_FRAMES: usize = 70_000;

fn viol(property: &str, clause: &str, step: usize, detail: String, signature: String) -> Violation {
    Violation {
        property: property.to_string(),
        clause: clause.to_string(),
        step,
        detail,
        signature,
    }
}

struct Obs {
    values: Vals,
    state: St,
    ended: bool,
    tau: Duration,
    paused: Option<(St, Duration)>,
}

fn observe(anim: &RealAnimator) -> Obs {
    let (tau, paused) = anim.verif_snapshot();
    Obs {
        values: anim.current_values().clone(),
        state: *anim.current_state(),
        ended: anim.is_ended(),
        tau,
        paused,
    }
}

fn hash_obs(h: &mut ObsHash, o: &Obs) {
    hash_vals(h, &o.values);
    h.u32(o.state.index() as u32);
    h.bool(o.ended);
    h.u64(o.tau.as_secs());
    h.u32(o.tau.subsec_nanos());
    match o.paused {
        None => h.u32(0xffff),
        Some((s, d)) => {
            h.u32(s.index() as u32);
            h.u64(d.as_secs());
            h.u32(d.subsec_nanos());
        }
    }
}

fn finite(v: &Vals) -> bool {
    v.a.is_finite() && v.b.is_finite()
}

fn phase_code(p: Phase) -> u64 {
    p as u64
}

/// The integer-overshoot panic of `Lerp` is documented, but the generator never produces an
/// input that legitimately overshoots (Back easings only meet u8 values in [64,191] with an
/// explicit 0% keyframe), so when it fires the interpolation was asked to *extrapolate*, which is
/// a defect of the caller. It is therefore reported like any other panic.
fn documented_panic(_msg: &str) -> bool {
    false
}

pub fn execute(scn: &Scn, property: &str) -> RunOutcome {
    simmodel::normalise_hidden_state();
    let mut out = RunOutcome::default();
    let mut h = ObsHash::default();
    let spec = &scn.spec;

    // ---- build -------------------------------------------------------------------------------
    let built = catch(|| spec.build());
    let mut anim = match built {
        Ok(a) => a,
        Err(p) => {
            h.str("panic-build");
            h.str(&p.message);
            out.obs_hash = h.0;
            if documented_panic(&p.message) {
                out.harness_error = Some(format!("generator produced integer overshoot: {}", p.describe()));
            } else {
                out.violation = Some(viol(
                    property,
                    &format!("panic@{}:{}", p.file, p.line),
                    0,
                    format!("building the animator panicked: {}", p.describe()),
                    "panic build".into(),
                ));
            }
            return out;
        }
    };
    let mut model = Model::new(spec);
    let mut prev = match catch(|| observe(&anim)) {
        Ok(o) => o,
        Err(p) => {
            h.str("panic-observe");
            h.str(&p.message);
            out.obs_hash = h.0;
            out.violation = Some(viol(
                property,
                &format!("panic@{}:{}", p.file, p.line),
                0,
                format!("querying the freshly built animator panicked: {}", p.describe()),
                "panic observe".into(),
            ));
            return out;
        }
    };
    hash_obs(&mut h, &prev);

    // C07 rest tracking: values at the first ended observation of the current stint.
    let mut rest_values: Option<Vals> = None;
    // C07: the time truly spent in the current stint, as the sum of what was delivered (an f64,
    // which does not saturate where the animator's nanosecond clock does)
    let mut c07_true_seconds: f64 = 0.0;
    // history shape for signatures: kinds of states visited (a = animated, u = un-animated)
    let mut history = String::new();
    history.push(if spec.animated(model.cur) { 'a' } else { 'u' });

    // Initial-observation checks.
    if property == "C05" || property == "C04" {
        if let Some(f) = vals_differ(&prev.values, &spec.initial_values) {
            out.violation = Some(viol(
                property,
                "initial-values",
                0,
                format!(
                    "freshly built animator shows {} but was given {} (field {f})",
                    vals_brief(&prev.values),
                    vals_brief(&spec.initial_values)
                ),
                "initial".into(),
            ));
            out.obs_hash = h.0;
            return out;
        }
    }

    for (step, (op, fault)) in scn.ops.iter().enumerate() {
        out.steps += 1;
        out.count(&format!("fault_fired.{}", fault.name()));
        let before_phase = oracle::merged_phase(spec.states[model.cur].as_ref(), model.tau.as_secs_f64());
        let model_before_cur = model.cur;
        let model_before_rel = model.remembered_rel();

        // ---- apply the operation to the real animator and to the model ---------------------
        let res = match op {
            Op::Advance(dt) => {
                if !dt.is_finite() {
                    // (an infinite frame saturates the clock; it is counted, not summed)
                    out.count("probe.infinite_frame");
                } else if *dt >= 1e9 {
                    out.astro_seconds += *dt as f64;
                } else {
                    out.sim_seconds += *dt as f64;
                }
                // an idling application: tens of thousands of zero-length frames in one state
                // before this frame ("inserting zero-length advances anywhere in a history
                // changes nothing") - more calls than any counter of 16 bits can hold
                let r = catch(|| {
                    if *fault == Fault::Idle {
                        for _ in 0..IDLE_FRAMES {
                            anim.advance(0.0);
                        }
                    }
                    anim.advance(*dt)
                });
                r
            }
            Op::SetState(s) => {
                let st = St::from_index(*s as usize);
                catch(|| anim.set_state(&st))
            }
        };
        if let Err(p) = res {
            h.str("panic");
            h.str(&p.message);
            h.u32(p.line);
            out.obs_hash = h.0;
            if documented_panic(&p.message) {
                out.harness_error = Some(format!("generator produced integer overshoot: {}", p.describe()));
            } else {
                out.violation = Some(viol(
                    property,
                    &format!("panic@{}:{}", p.file, p.line),
                    step,
                    format!("{op:?} panicked: {}", p.describe()),
                    format!("panic {op:?}"),
                ));
            }
            return out;
        }
        // The model itself calls the real timeline layer; a panic there is reported the same way.
        let mres = match op {
            Op::Advance(dt) => catch(|| model.advance(*dt)),
            Op::SetState(s) => catch(|| model.set_state(*s as usize)),
        };
        if let Err(p) = mres {
            out.obs_hash = h.0;
            if documented_panic(&p.message) {
                out.harness_error = Some(format!("generator produced integer overshoot (model): {}", p.describe()));
            } else {
                out.violation = Some(viol(
                    property,
                    &format!("panic@{}:{}", p.file, p.line),
                    step,
                    format!("{op:?}: evaluating a fresh timeline panicked: {}", p.describe()),
                    "panic model".into(),
                ));
            }
            return out;
        }
        let now = match catch(|| (observe(&anim), model.is_ended_differential())) {
            Ok((o, _)) => o,
            Err(p) => {
                h.str("panic-observe");
                h.str(&p.message);
                out.obs_hash = h.0;
                out.violation = Some(viol(
                    property,
                    &format!("panic@{}:{}", p.file, p.line),
                    step,
                    format!("is_ended/current_values after {op:?} panicked: {}", p.describe()),
                    "panic observe".into(),
                ));
                return out;
            }
        };
        hash_obs(&mut h, &now);
        let after_phase = oracle::merged_phase(spec.states[model.cur].as_ref(), model.tau.as_secs_f64());
        if let Op::SetState(s) = op {
            if *s as usize != model_before_cur {
                history.push(if spec.animated(*s as usize) { 'a' } else { 'u' });
            }
        }

        // abstract transition key (coverage measure shared by all properties)
        let op_code: u64 = match op {
            Op::Advance(dt) => {
                if *dt == 0.0 {
                    1
                } else {
                    2
                }
            }
            Op::SetState(s) => {
                let s = *s as usize;
                if s == model_before_cur {
                    3
                } else if spec.animated(s) {
                    if model_before_rel != 0 && now.tau != Duration::ZERO {
                        4 // animated, resumed
                    } else {
                        5 // animated, fresh blend
                    }
                } else {
                    6
                }
            }
        };
        out.abstract_transitions.insert(hash_words(&[
            phase_code(before_phase),
            model_before_rel as u64,
            op_code,
            phase_code(after_phase),
        ]));

        let mut v: Option<Violation> = None;
        match property {
            // -------------------------------------------------------------------------------
            "C04" => {
                if let Op::SetState(s) = op {
                    out.evaluations += 1;
                    let s = *s as usize;
                    let same = s == model_before_cur;
                    // non-trivial: the target's own 0% value differs from the current value for
                    // some property it keyframes (a missing blend would be visible), or resume.
                    let mut nontrivial = false;
                    if !same {
                        if let Some(m) = &spec.states[s] {
                            for prop in 0..4 {
                                if let Some(start) = oracle::merged_start(m, prop) {
                                    if start != oracle::get_prop(&prev.values, prop) {
                                        nontrivial = true;
                                    }
                                }
                            }
                            if op_code == 4 {
                                nontrivial = true;
                                out.count("probe.resume_taken");
                            }
                        }
                    }
                    if nontrivial {
                        out.triggered = true;
                        let delayed = spec.states[s]
                            .as_ref()
                            .map(|m| m.parts.iter().any(|p| p.delay > 0.0))
                            .unwrap_or(false);
                        let merged = spec.states[s].as_ref().map(|m| m.parts.len()).unwrap_or(0);
                        out.distinct.insert(hash_words(&[
                            phase_code(before_phase),
                            model_before_rel as u64,
                            op_code,
                            delayed as u64,
                            merged as u64,
                            history.len().min(6) as u64,
                        ]));
                    }
                    if let Some(f) = vals_differ(&prev.values, &now.values) {
                        v = Some(viol(
                            "C04",
                            if same { "same-state-changed-values" } else { "jump" },
                            step,
                            format!(
                                "set_state({s}) changed current_values field {f}: before {} after {} (history {history}, source phase {before_phase:?})",
                                vals_brief(&prev.values),
                                vals_brief(&now.values)
                            ),
                            format!("history={history} op={op_code}"),
                        ));
                    } else if same
                        && (now.tau != prev.tau || now.paused != prev.paused || now.ended != prev.ended)
                    {
                        v = Some(viol(
                            "C04",
                            "same-state-not-noop",
                            step,
                            format!(
                                "set_state to the current state changed internal time/pause/ended: tau {:?}->{:?} paused {:?}->{:?}",
                                prev.tau, now.tau, prev.paused, now.paused
                            ),
                            "same-state".into(),
                        ));
                    }
                    if same {
                        out.count("probe.same_state_set");
                    }
                }
            }
            // -------------------------------------------------------------------------------
            "C05" => {
                out.evaluations += 1;
                let nontrivial = matches!(op, Op::SetState(_)) || before_phase != after_phase;
                if nontrivial {
                    out.triggered = true;
                    out.distinct.insert(hash_words(&[
                        phase_code(before_phase),
                        model_before_rel as u64,
                        op_code,
                        phase_code(after_phase),
                        history.len().min(5) as u64,
                    ]));
                }
                if op_code == 4 {
                    out.count("probe.resume_taken");
                }
                if model.remembered.is_some() && matches!(op, Op::SetState(_)) {
                    out.count("probe.pause_recorded_or_kept");
                }
                if now.state.index() != model.cur {
                    v = Some(viol(
                        "C05",
                        "current-state",
                        step,
                        format!("current_state is {:?}, last state set is {}", now.state, model.cur),
                        format!("history={history}"),
                    ));
                } else if let Some(f) = model.accept(&now.values) {
                    v = Some(viol(
                        "C05",
                        "values",
                        step,
                        format!(
                            "after {op:?}: current_values {} but the state's timeline started from {} evaluated at {:?} gives {} (field {f}; history {history}; animator time-in-state {:?})",
                            vals_brief(&now.values),
                            model.entry[model.cur].as_ref().map(vals_brief).unwrap_or_else(|| "-".into()),
                            model.tau,
                            vals_brief(&model.values),
                            now.tau
                        ),
                        format!("history={history} op={op_code}"),
                    ));
                } else if now.tau != model.tau {
                    v = Some(viol(
                        "C05",
                        "time-in-state",
                        step,
                        format!(
                            "after {op:?}: time in state is {:?}, model says {:?} (history {history})",
                            now.tau, model.tau
                        ),
                        format!("history={history} op={op_code}"),
                    ));
                } else if let Some(d) = reference_mismatch(spec, &model, &now.values, &mut out) {
                    v = Some(viol(
                        "C05",
                        "values-vs-documented-timeline-semantics",
                        step,
                        format!("after {op:?} (history {history}): {d}"),
                        format!("history={history} op={op_code}"),
                    ));
                } else if now.ended != model.is_ended_differential() && Some(now.ended) != model.is_ended_differential_alt() {
                    v = Some(viol(
                        "C05",
                        "is-ended-differential",
                        step,
                        format!(
                            "is_ended={} but time in state {:?} vs timeline duration says {}",
                            now.ended,
                            model.tau,
                            model.is_ended_differential()
                        ),
                        format!("history={history}"),
                    ));
                }
            }
            // -------------------------------------------------------------------------------
            "C07" => {
                out.evaluations += 1;
                // C07 is decided on the animator's own time in state (hook) and its own current
                // state, so that it is independent of the C05 reference model.
                let cur = now.state.index();
                let c07_tau = now.tau;
                let tau_s = c07_tau.as_secs_f64();
                let total = spec.states[cur].as_ref().map(oracle::merged_total);
                // expected is_ended from the configuration
                // (the grid of eighths is exact in f32 only below 2^21 s: beyond that a "grid" run
                // is treated like any other)
                let on_exact_grid = scn.grid && tau_s < 2_097_152.0 && total.flatten().map(|u| u < 2_097_152.0).unwrap_or(true);
                let (expected, band) = match total {
                    None => (true, false),           // no timeline
                    Some(None) => (false, false),    // some component repeats infinitely
                    Some(Some(u)) => {
                        let exp = if on_exact_grid {
                            // exact: compare in nanoseconds
                            let u_ns = (u * 1e9).round() as u128;
                            c07_tau.as_nanos() >= u_ns
                        } else {
                            tau_s >= u
                        };
                        // is_ended compares two f32 numbers that each carry up to one rounding
                        // (time in state -> f32; delay + cycle x cycles in f32): within 2 ulps of
                        // the end instant either answer is within float rounding
                        let ulp = (f32::EPSILON as f64) * u.abs().max(1e-30);
                        (exp, !on_exact_grid && (tau_s - u).abs() <= 2.0 * ulp + 2e-9)
                    }
                };
                if let Some(Some(u)) = total {
                    if on_exact_grid && (tau_s == u) {
                        out.count("probe.landed_exactly_on_end");
                    }
                }
                // Landing exactly on the end instant with one step: entered the state (time in
                // state 0), then a single advance by exactly the total duration - where "exactly"
                // is unambiguous, i.e. the total is itself an f32 (no delay, no repetition: the
                // longest cycle duration) - must end the animation, on or off the grid. (Below
                // 1/64 s an f32 step is finer than the animator's nanosecond clock; the step is
                // not exactly representable there.)
                if let (Op::Advance(dt), Some(m)) = (op, spec.states[cur].as_ref()) {
                    let simple = !m.parts.is_empty() && m.parts.iter().all(|p| p.delay == 0.0 && p.repeat == Rep::None);
                    if simple && prev.tau == Duration::ZERO && prev.state.index() == cur {
                        let u32_total = m.parts.iter().map(|p| p.duration).fold(0.0f32, f32::max);
                        // (and within the range of the animator's clock: see the saturation clause)
                        if dt.to_bits() == u32_total.to_bits() && u32_total >= 1.0 / 64.0 && u32_total < 1.8e19 {
                            out.count("probe.single_step_of_exactly_the_total");
                            if !now.ended && v.is_none() {
                                v = Some(viol(
                                    "C07",
                                    "not-ended-after-a-step-of-exactly-the-total",
                                    step,
                                    format!(
                                        "state {cur}: entered, then advance({dt:?}) where {dt:?} is exactly the timeline's total duration: is_ended() is false (time in state {:?})",
                                        c07_tau
                                    ),
                                    format!("phase={after_phase:?}"),
                                ));
                            }
                        }
                    }
                }
                // The clock of the animator is a `Duration`: it saturates at 2^64 s. A finite
                // timeline whose total lies beyond that is over when the time truly spent in the
                // state - the sum of what was delivered - has passed its total, whatever the
                // clock shows.
                match op {
                    Op::Advance(dt) => c07_true_seconds += *dt as f64,
                    Op::SetState(s) if *s as usize != model_before_cur => c07_true_seconds = model.tau.as_secs_f64(),
                    _ => {}
                }
                if let Some(Some(u)) = total {
                    if c07_tau == Duration::MAX && c07_true_seconds >= u * (1.0 + 1e-6) && !now.ended && v.is_none() {
                        out.count("probe.clock_saturated_short_of_the_total");
                        v = Some(viol(
                            "C07",
                            "clock-saturated-short-of-the-total",
                            step,
                            format!(
                                "state {cur}: {c07_true_seconds:e} s have been delivered in this state, its timeline's total is {u:e} s, but the animator's clock stopped at Duration::MAX ({:e} s) and is_ended() is false - for good",
                                Duration::MAX.as_secs_f64()
                            ),
                            "total-beyond-the-clock".into(),
                        ));
                    }
                }
                if !band && now.ended != expected && v.is_none() {
                    let clause = match total {
                        Some(None) => "ended-although-infinite",
                        None => "not-ended-without-timeline",
                        _ if now.ended => "ended-too-early",
                        _ => "not-ended-at-or-after-total",
                    };
                    v = Some(viol(
                        "C07",
                        clause,
                        step,
                        format!(
                            "state {cur}: time in state {:?}, configured total {:?} => is_ended should be {expected}, got {}",
                            c07_tau,
                            total,
                            now.ended
                        ),
                        format!("phase={after_phase:?}"),
                    ));
                }
                // Second reading of "time spent in the state": under the pause/resume rules (C05's
                // reference model) an animation that is resumed continues where it was frozen, so
                // is_ended must also agree with the model's time in state. (On a tree where the
                // animator follows those rules both readings coincide.)
                if v.is_none() && model.cur == cur {
                    let m_tau = model.tau.as_secs_f64();
                    let disagree = match total {
                        None => false,
                        Some(None) => false,
                        Some(Some(u)) => {
                            let exp = if on_exact_grid && m_tau < 2_097_152.0 {
                                model.tau.as_nanos() >= (u * 1e9).round() as u128
                            } else {
                                m_tau >= u
                            };
                            let ulp = (f32::EPSILON as f64) * u.abs().max(1e-30);
                            let in_band = !(on_exact_grid && m_tau < 2_097_152.0) && (m_tau - u).abs() <= 2.0 * ulp + 2e-9;
                            !in_band && !band && exp != now.ended && model.tau != c07_tau
                        }
                    };
                    if disagree {
                        v = Some(viol(
                            "C07",
                            "ended-vs-time-spent-under-resume-rules",
                            step,
                            format!(
                                "state {cur}: by the pause/resume rules {:?} have been spent in this state (total {:?}), the animator counts {:?} and reports is_ended={}",
                                model.tau, total, c07_tau, now.ended
                            ),
                            format!("phase={after_phase:?}"),
                        ));
                    }
                }
                // rest invariant
                let state_changed = matches!(op, Op::SetState(s) if *s as usize != model_before_cur);
                if state_changed {
                    rest_values = None;
                }
                if v.is_none() {
                    // Inside the band the *instant* at which is_ended flips is not pinned down, but
                    // what is_ended means is: whenever the animator itself says the animation is
                    // over, the values are the terminal values and stay there - bit for bit, inside
                    // the band or not (once ended the animator evaluates the end of the timeline,
                    // not the instant the clock happens to show).
                    if let Some(rest) = &rest_values {
                        // already ended earlier in this stint
                        if !now.ended {
                            v = Some(viol(
                                "C07",
                                "ended-not-monotone",
                                step,
                                format!("is_ended went back to false after {op:?} without a state change"),
                                format!("phase={after_phase:?}"),
                            ));
                        } else if let Some(f) = vals_differ(rest, &now.values) {
                            v = Some(viol(
                                "C07",
                                "values-moved-after-end",
                                step,
                                format!(
                                    "after the end, {op:?} changed field {f}: {} -> {}",
                                    vals_brief(rest),
                                    vals_brief(&now.values)
                                ),
                                format!("phase={after_phase:?}"),
                            ));
                        }
                        out.count("probe.advance_after_end");
                    } else if now.ended {
                        rest_values = Some(now.values.clone());
                        if band {
                            out.count("probe.reported_ended_inside_rounding_band_of_end_instant");
                        }
                        out.triggered = true;
                        out.distinct.insert(hash_words(&[
                            phase_code(before_phase),
                            op_code,
                            spec.states[cur].as_ref().map(|m| m.parts.len()).unwrap_or(9) as u64,
                            spec.states[cur]
                                .as_ref()
                                .map(|m| m.parts.iter().any(|p| p.reverse))
                                .unwrap_or(false) as u64,
                            spec.states[cur]
                                .as_ref()
                                .map(|m| m.parts.iter().any(|p| p.repeat != Rep::None))
                                .unwrap_or(false) as u64,
                            (total == Some(Some(tau_s))) as u64,
                        ]));
                        // terminal values from the configuration (only once evaluated at/after the
                        // end, i.e. when this observation follows an evaluation in this state)
                        if let (Some(m), Some(Some(u))) = (&spec.states[cur], total) {
                            let firmly = true;
                            if firmly && !m.parts.is_empty() {
                                for prop in 0..4 {
                                    if let Some(term) = oracle::merged_terminal(m, prop) {
                                        let actual = oracle::get_prop(&now.values, prop);
                                        let extra = match oracle::get_prop(&prev.values, prop) {
                                            PropVal::F(x) => x,
                                            _ => 0.0,
                                        };
                                        let scale = oracle::float_scale(m, prop, extra);
                                        let close = oracle::prop_close(actual, term, scale, 8.0);
                                        if !close {
                                            v = Some(viol(
                                                "C07",
                                                "terminal-values",
                                                step,
                                                format!(
                                                    "state {cur} ended (time {:?} >= total {u}) but property {} is {actual:?}, terminal value from the configuration is {term:?}",
                                                    c07_tau, PROP_NAMES[prop]
                                                ),
                                                format!("prop={}", PROP_NAMES[prop]),
                                            ));
                                            break;
                                        }
                                        out.count("probe.terminal_value_checked");
                                    }
                                }
                            }
                        }
                    }
                }
            }
            // -------------------------------------------------------------------------------
            "C08" => {
                out.evaluations += 1;
                // Per-component reading of "evaluating a timeline never modifies a property for
                // which it has no keyframe": each component of the current state's merged
                // timeline, alone, started from the values the state was entered with and evaluated
                // at the current time into a copy of the current values, must leave every property
                // *it* does not keyframe untouched (inside a merged timeline another component may
                // keyframe that property, which would hide the write from the whole-state check).
                if let Some(m) = spec.states[model.cur].as_ref() {
                    if m.parts.len() >= 2 || step % 4 == 0 {
                        let t = now.tau.as_secs_f64() as f32;
                        for (ci, part) in m.parts.iter().enumerate() {
                            let probe = catch(|| {
                                let mut tl = part.build();
                                if let Some(e) = &model.entry[model.cur] {
                                    tl.start_with(e);
                                }
                                let mut probe = now.values.clone();
                                tl.update(&mut probe, t);
                                probe
                            });
                            if let Ok(probe) = probe {
                                out.count("probe.component_evaluated_alone");
                                for prop in 0..4 {
                                    if !part.keyframes_prop(prop) {
                                        let b = oracle::get_prop(&now.values, prop);
                                        let a = oracle::get_prop(&probe, prop);
                                        let same = match (a, b) {
                                            (PropVal::F(x), PropVal::F(y)) => x.to_bits() == y.to_bits(),
                                            (x, y) => x == y,
                                        };
                                        if !same && v.is_none() {
                                            v = Some(viol(
                                                "C08",
                                                "component-wrote-unkeyed-property",
                                                step,
                                                format!(
                                                    "state {} component {ci} (phase {after_phase:?}) evaluated alone at {t}s changed property {} from {b:?} to {a:?} although that component has no keyframe for it",
                                                    model.cur, PROP_NAMES[prop]
                                                ),
                                                format!("prop={} component", PROP_NAMES[prop]),
                                            ));
                                        }
                                    }
                                }
                                if probe.tag != now.values.tag && v.is_none() {
                                    v = Some(viol(
                                        "C08",
                                        "excluded-field-written",
                                        step,
                                        format!("component {ci} evaluated alone changed the excluded field"),
                                        "tag component".into(),
                                    ));
                                }
                            }
                        }
                    }
                }
                // which timeline could legitimately have written during this op?
                let writer = spec.states[model.cur].as_ref();
                if v.is_some() {
                    // already decided by the per-component probe
                } else if now.values.tag != TAG_SENTINEL {
                    v = Some(viol(
                        "C08",
                        "excluded-field-written",
                        step,
                        format!("field without #[animate] changed to {:#x} after {op:?}", now.values.tag),
                        "tag".into(),
                    ));
                } else {
                    for prop in 0..4 {
                        let keyed = writer.map(|m| m.keyframes_prop(prop)).unwrap_or(false);
                        if !keyed {
                            let b = oracle::get_prop(&prev.values, prop);
                            let a = oracle::get_prop(&now.values, prop);
                            let same = match (a, b) {
                                (PropVal::F(x), PropVal::F(y)) => x.to_bits() == y.to_bits(),
                                (x, y) => x == y,
                            };
                            out.count(&format!("probe.unkeyed_checked_in_phase.{after_phase:?}"));
                            if !same {
                                v = Some(viol(
                                    "C08",
                                    if writer.map(|m| m.total_keyframes() == 0).unwrap_or(false) {
                                        "zero-keyframe-timeline-wrote"
                                    } else if writer.is_none() {
                                        "unanimated-state-wrote"
                                    } else {
                                        "unkeyed-property-written"
                                    },
                                    step,
                                    format!(
                                        "{op:?} in state {} (phase {after_phase:?}) changed property {} from {b:?} to {a:?} although the state's timeline has no keyframe for it",
                                        model.cur, PROP_NAMES[prop]
                                    ),
                                    format!("prop={} phase={after_phase:?}", PROP_NAMES[prop]),
                                ));
                                break;
                            }
                            if writer.is_some() {
                                out.triggered = true;
                                out.distinct.insert(hash_words(&[
                                    prop as u64,
                                    phase_code(after_phase),
                                    op_code,
                                    writer.map(|m| m.parts.len()).unwrap_or(0) as u64,
                                    writer.map(|m| m.total_keyframes() == 0).unwrap_or(false) as u64,
                                ]));
                            }
                        }
                    }
                }
            }
            // -------------------------------------------------------------------------------
            "C20" => {
                out.evaluations += 1;
                out.triggered = true;
                if !finite(&now.values) {
                    v = Some(viol(
                        "C20",
                        "non-finite-value",
                        step,
                        format!("{op:?} produced non-finite values {}", vals_brief(&now.values)),
                        format!("{op:?}"),
                    ));
                }
                out.distinct.insert(hash_words(&[
                    phase_code(before_phase),
                    op_code,
                    *fault as u64,
                    phase_code(after_phase),
                ]));
            }
            // C06 is decided after the base run (below).
            _ => {}
        }
        if let Some(v) = v {
            out.violation = Some(v);
            out.obs_hash = h.0;
            return out;
        }
        prev = now;
    }

    if (property == "C05" || property == "C07") && out.violation.is_none() && scn.repartition_seed % 4 == 0 {
        // the state-type dimension: same timelines, same trace, a payload-carrying state type
        out.count("probe.state_type_twin_run");
        out.evaluations += scn.ops.len() as u64;
        match catch(|| crate::shapes::state_type_probe(spec, &scn.ops)) {
            Ok(None) => {}
            Ok(Some(d)) => {
                out.violation = Some(viol(property, "state-type-dependence", scn.ops.len(), d, "state-type".into()));
            }
            Err(p) => {
                out.violation = Some(viol(
                    property,
                    &format!("panic@{}:{}", p.file, p.line),
                    scn.ops.len(),
                    format!("state-type twin panicked: {}", p.describe()),
                    "panic state-type".into(),
                ));
            }
        }
    }
    if property == "C08" {
        // the struct-shape dimension: one of the additional shapes, same operation trace
        let which = (scn.repartition_seed % 10) as usize;
        let variant = (scn.repartition_seed >> 3) & 7;
        out.count(&format!("shape_run.{}", crate::shapes::SHAPE_NAMES[which]));
        out.evaluations += 1;
        out.distinct.insert(hash_words(&[0x5a5a, which as u64, variant]));
        match catch(|| crate::shapes::run_shape(which, &scn.ops, variant)) {
            Ok(None) => {}
            Ok(Some(detail)) => {
                out.violation = Some(viol(
                    "C08",
                    "excluded-field-written",
                    scn.ops.len(),
                    detail,
                    format!("shape={}", crate::shapes::SHAPE_NAMES[which]),
                ));
            }
            Err(p) => {
                out.violation = Some(viol(
                    "C08",
                    &format!("panic@{}:{}", p.file, p.line),
                    scn.ops.len(),
                    format!("shape {} panicked: {}", crate::shapes::SHAPE_NAMES[which], p.describe()),
                    "panic shape".into(),
                ));
            }
        }
    }
    if property == "C06" {
        if let Some(v) = check_c06(scn, &mut out, &mut h) {
            out.violation = Some(v);
        }
    }
    if property == "C20" && out.violation.is_none() && scn.repartition_seed % 3 == 0 {
        out.count("probe.f64_properties_run");
        match catch(|| crate::shapes::f64_probe(&scn.ops, scn.repartition_seed >> 3)) {
            Ok(None) => {}
            Ok(Some(d)) => {
                out.violation = Some(viol("C20", "non-finite-value", scn.ops.len(), d, "f64".into()));
            }
            Err(p) => {
                out.violation = Some(viol(
                    "C20",
                    &format!("panic@{}:{}", p.file, p.line),
                    scn.ops.len(),
                    format!("f64 probe panicked: {}", p.describe()),
                    "panic f64".into(),
                ));
            }
        }
    }
    if (property == "C20" || property == "C07") && out.violation.is_none() && (scn.repartition_seed >> 5) % 8 == 0 {
        out.count("probe.wide_integer_and_f64_properties_run");
        let mut observe = |v: &crate::shapes::WideInts, ended: bool| {
            h.u64(v.up);
            h.u64(v.down);
            h.u64(v.signed as u64);
            h.u64(v.size as u64);
            h.u64(v.fine.to_bits());
            h.u32(ended as u32);
        };
        match catch(|| crate::shapes::wide_ints_probe(&scn.ops, scn.repartition_seed >> 9, &mut observe)) {
            Ok(None) => {}
            Ok(Some((clause, d))) => {
                out.violation = Some(viol(property, clause, scn.ops.len(), d, "wide properties".into()));
            }
            Err(p) => {
                out.violation = Some(viol(
                    property,
                    &format!("panic@{}:{}", p.file, p.line),
                    scn.ops.len(),
                    format!("wide-property probe panicked: {}", p.describe()),
                    "panic wide properties".into(),
                ));
            }
        }
    }
    if property == "C20" && out.violation.is_none() && scn.repartition_seed % 3 == 1 {
        out.count("probe.extreme_constant_under_overshooting_easing_run");
        match catch(|| crate::shapes::extreme_constant_probe(&scn.ops, scn.repartition_seed >> 3)) {
            Ok(None) => {}
            Ok(Some(d)) => {
                out.violation = Some(viol("C20", "non-finite-value", scn.ops.len(), d, "extreme constant".into()));
            }
            Err(p) => {
                out.violation = Some(viol(
                    "C20",
                    &format!("panic@{}:{}", p.file, p.line),
                    scn.ops.len(),
                    format!("extreme-constant probe panicked: {}", p.describe()),
                    "panic extreme constant".into(),
                ));
            }
        }
    }
    if property == "C20" {
        // duration() of every timeline must be finite unless a component is infinite
        for (i, st) in spec.states.iter().enumerate() {
            if let Some(m) = st {
                let r = catch(|| m.build().duration());
                match r {
                    Ok(d) => {
                        h.f32(d);
                        let inf_ok = oracle::merged_total(m).is_none();
                        if !(d.is_finite() || (inf_ok && d == f32::INFINITY)) {
                            out.violation.get_or_insert(viol(
                                "C20",
                                "non-finite-duration",
                                scn.ops.len(),
                                format!("state {i}: duration() = {d} for a finite configuration"),
                                "duration".into(),
                            ));
                        }
                    }
                    Err(p) => {
                        out.violation.get_or_insert(viol(
                            "C20",
                            &format!("panic@{}:{}", p.file, p.line),
                            scn.ops.len(),
                            format!("duration() panicked: {}", p.describe()),
                            "panic duration".into(),
                        ));
                    }
                }
            }
        }
    }
    out.obs_hash = h.0;
    out
}

/// Independent check of "the current state's timeline evaluated at the time spent in that state,
/// started from the values held when the state was entered": the reference evaluator in
/// `simmodel::oracle` (documented semantics, no mina frame lookup) against the observed values.
fn reference_mismatch(spec: &AnimSpec, model: &Model, observed: &Vals, out: &mut RunOutcome) -> Option<String> {
    let m = spec.states[model.cur].as_ref()?;
    let t = model.tau.as_secs_f64() as f32;
    if !(t < 1.0e6) {
        return None;
    }
    // Within a rounding or two of the end instant the animator may already (rightly) show the end
    // of the timeline while the reference, evaluated at the f32 instant, is still inside the last
    // cycle - with a cycle shorter than the resolution of the time even at its very beginning.
    // What holds there is C07's business (terminal values once is_ended).
    if let Some(total) = oracle::merged_total(m) {
        if (t as f64 - total).abs() <= 4.0 * f32::EPSILON as f64 * total.abs().max(1e-30) {
            out.count("probe.reference_skipped_at_the_end_instant");
            return None;
        }
    }
    let r = oracle::ref_eval(m, model.entry[model.cur].as_ref(), t);
    for prop in 0..4 {
        if let Some(rp) = &r[prop] {
            if rp.near_boundary {
                out.count("probe.reference_skipped_near_phase_boundary");
                continue;
            }
            out.count("probe.reference_value_checked");
            let actual = oracle::get_prop(observed, prop);
            if !oracle::ref_matches(actual, rp, 1e-4) {
                // A step function as easing is discontinuous: one rounding of the position
                // inside the segment decides on which side of a step (or of the segment's end) the
                // value is taken, and the property leaves that rounding open. The observed value
                // may be the reference a few ulps of the time to either side (benign change b6-1:
                // the segment fraction formed in f64 lands on the other side of a step at an
                // instant that is a keyframe position to within an ulp).
                let steps = m.parts.iter().any(|p| p.uses_easing(CUSTOM_STEPS));
                if steps {
                    let mut excused = false;
                    for k in [1u32, 2, 4, 8] {
                        for t2 in [f32::from_bits(t.to_bits().saturating_sub(k)), f32::from_bits(t.to_bits() + k)] {
                            if t2.is_finite() && t2 >= 0.0 {
                                let r2 = oracle::ref_eval(m, model.entry[model.cur].as_ref(), t2);
                                if let Some(rp2) = &r2[prop] {
                                    if rp2.near_boundary || oracle::ref_matches(actual, rp2, 1e-4) {
                                        excused = true;
                                    }
                                }
                            }
                        }
                    }
                    if excused {
                        out.count("probe.reference_matched_on_the_other_side_of_a_step");
                        continue;
                    }
                }
                return Some(format!(
                    "property {} is {actual:?}; the documented timeline semantics give {} for state {} at time {t}s started from {}",
                    PROP_NAMES[prop],
                    rp.value,
                    model.cur,
                    model.entry[model.cur].as_ref().map(vals_brief).unwrap_or_else(|| "-".into())
                ));
            }
        }
    }
    None
}

// -------------------------------------------------------------------------------------------------
// C06: frame-rate independence - the same elapsed time delivered as different frame schedules
// -------------------------------------------------------------------------------------------------

/// A trace cut into segments: the advances between two state changes.
struct Segmented {
    segments: Vec<Vec<f32>>, // segments.len() == sets.len() + 1
    sets: Vec<u8>,
}

fn segment(ops: &[(Op, Fault)]) -> Segmented {
    let mut segments = vec![Vec::new()];
    let mut sets = Vec::new();
    for (op, _) in ops {
        match op {
            Op::Advance(dt) => segments.last_mut().unwrap().push(*dt),
            Op::SetState(s) => {
                sets.push(*s);
                segments.push(Vec::new());
            }
        }
    }
    Segmented { segments, sets }
}

struct SyncObs {
    values: Vals,
    ended: bool,
    tau: Duration,
}

/// Runs a segmented trace on a fresh animator; observes after each segment and after each set.
fn run_segmented(spec: &AnimSpec, seg: &Segmented) -> Result<Vec<SyncObs>, simkit::panic::PanicInfo> {
    catch(|| {
        let mut anim = spec.build();
        let mut obs = Vec::new();
        let grab = |a: &RealAnimator| SyncObs {
            values: a.current_values().clone(),
            ended: a.is_ended(),
            tau: a.verif_snapshot().0,
        };
        for (i, s) in seg.segments.iter().enumerate() {
            for dt in s {
                anim.advance(*dt);
            }
            obs.push(grab(&anim));
            if i < seg.sets.len() {
                anim.set_state(&St::from_index(seg.sets[i] as usize));
                obs.push(grab(&anim));
            }
        }
        obs
    })
}

fn split_eighths(rng: &mut Rng, dt: f32) -> Vec<f32> {
    let m = (dt * 8.0) as u64;
    if m < 2 {
        return vec![dt];
    }
    let parts = rng.range(2, 8.min(m as i64)) as u64;
    // random composition of m into `parts` positive integers
    let mut cuts: Vec<u64> = Vec::new();
    while (cuts.len() as u64) < parts - 1 {
        let c = 1 + rng.below(m - 1);
        if !cuts.contains(&c) {
            cuts.push(c);
        }
    }
    cuts.sort();
    let mut out = Vec::new();
    let mut last = 0;
    for c in cuts.iter().chain(std::iter::once(&m)) {
        out.push((c - last) as f32 / 8.0);
        last = *c;
    }
    out
}

fn check_c06(scn: &Scn, out: &mut RunOutcome, h: &mut ObsHash) -> Option<Violation> {
    let spec = &scn.spec;
    let base_seg = segment(&scn.ops);
    let base = match run_segmented(spec, &base_seg) {
        Ok(b) => b,
        Err(p) => {
            return Some(viol(
                "C06",
                &format!("panic@{}:{}", p.file, p.line),
                0,
                format!("base schedule panicked: {}", p.describe()),
                "panic".into(),
            ))
        }
    };
    let mut rng = Rng::new(scn.repartition_seed);
    // variant kinds: 0 = zero-length advances inserted, 1 = split, 2 = coalesce, 3 = one frame per 1/8 s
    let kinds: &[u8] = if scn.grid { &[0, 1, 2, 3, 1] } else { &[0, 0, 4] };
    for kind in kinds {
        let mut var = Segmented {
            segments: Vec::new(),
            sets: base_seg.sets.clone(),
        };
        let mut straddles = false;
        for s in &base_seg.segments {
            let mut seg: Vec<f32> = Vec::new();
            match kind {
                0 => {
                    if rng.chance(0.5) {
                        seg.push(0.0);
                        out.count("fault_fired.repartition_zero_inserted");
                    }
                    for dt in s {
                        seg.push(*dt);
                        if rng.chance(0.4) {
                            seg.push(0.0);
                            out.count("fault_fired.repartition_zero_inserted");
                        }
                    }
                }
                1 => {
                    for dt in s {
                        let parts = split_eighths(&mut rng, *dt);
                        if parts.len() > 1 {
                            out.count("fault_fired.repartition_split");
                        }
                        seg.extend(parts);
                    }
                }
                2 => {
                    let total: f32 = s.iter().sum();
                    if s.len() > 1 {
                        out.count("fault_fired.repartition_coalesced");
                    }
                    if !s.is_empty() {
                        seg.push(total);
                    }
                }
                3 => {
                    let total: f32 = s.iter().sum();
                    let m = (total * 8.0) as u64;
                    if m <= 4096 {
                        for _ in 0..m {
                            seg.push(0.125);
                        }
                        out.count("fault_fired.repartition_eighth_steps");
                    } else {
                        seg.extend(s.iter().copied());
                    }
                }
                _ => {
                    // off-grid split: arbitrary f32 parts; decided on the accumulator below
                    for dt in s {
                        if *dt > 0.0 && rng.chance(0.7) {
                            let f = (0.05 + 0.9 * rng.unit()) as f32;
                            let p1 = *dt * f;
                            let p2 = *dt - p1;
                            seg.push(p1);
                            if p2 >= 0.0 {
                                seg.push(p2);
                            }
                            out.count("fault_fired.repartition_split_offgrid");
                        } else {
                            seg.push(*dt);
                        }
                    }
                }
            }
            var.segments.push(seg);
        }
        let got = match run_segmented(spec, &var) {
            Ok(g) => g,
            Err(p) => {
                return Some(viol(
                    "C06",
                    &format!("panic@{}:{}", p.file, p.line),
                    0,
                    format!("re-partitioned schedule (kind {kind}) panicked: {}", p.describe()),
                    "panic".into(),
                ))
            }
        };
        out.evaluations += got.len() as u64;
        // non-trivial: some re-partitioned segment crosses a phase boundary of the state it runs in
        {
            let mut cur = spec.initial_state as usize;
            let mut book_tau = 0.0f64;
            for (i, s) in var.segments.iter().enumerate() {
                if let Some(m) = &spec.states[cur] {
                    let bs = oracle::phase_boundaries(m, 6);
                    let mut t = book_tau;
                    for dt in s {
                        let t2 = t + *dt as f64;
                        if bs.iter().any(|b| *b > t && *b <= t2) && s.len() != base_seg.segments[i].len() {
                            straddles = true;
                        }
                        t = t2;
                    }
                }
                if i < var.sets.len() {
                    // bookkeeping only; exact resume times are irrelevant for the trigger
                    if var.sets[i] as usize != cur {
                        cur = var.sets[i] as usize;
                        book_tau = 0.0;
                    } else {
                        book_tau += s.iter().map(|d| *d as f64).sum::<f64>();
                    }
                }
            }
        }
        if straddles {
            out.triggered = true;
            out.distinct.insert(hash_words(&[
                *kind as u64,
                var.segments.iter().map(|s| s.len() as u64).sum::<u64>(),
                base_seg.sets.len() as u64,
                scn.grid as u64,
            ]));
            out.count("probe.repartition_straddles_phase_boundary");
        }
        for (i, (b, g)) in base.iter().zip(got.iter()).enumerate() {
            hash_vals(h, &g.values);
            h.bool(g.ended);
            if *kind == 4 {
                // off-grid split: decided on the accumulator - time in state must be exactly the
                // sum of the delivered steps (each rounded to a Duration once), i.e. time
                // accumulates and nothing else.
                continue;
            }
            let diff = vals_bits_differ(&b.values, &g.values).or(if b.ended != g.ended {
                Some("is_ended")
            } else if b.tau != g.tau {
                Some("time-in-state")
            } else {
                None
            });
            if let Some(f) = diff {
                let kind_name = ["zero-length advances inserted", "advances split", "advances coalesced", "one frame per 1/8 s"][*kind as usize];
                return Some(viol(
                    "C06",
                    if *kind == 0 { "zero-advance-changed-result" } else { "partition-changed-result" },
                    i,
                    format!(
                        "same elapsed time, different frame schedule ({kind_name}): at sync point {i} field {f} differs: base {} ended={} tau={:?} vs {} ended={} tau={:?}; variant segments {:?}",
                        vals_brief(&b.values), b.ended, b.tau,
                        vals_brief(&g.values), g.ended, g.tau,
                        var.segments
                    ),
                    format!("kind={kind}"),
                ));
            }
        }
        if *kind == 4 {
            // accumulator check on the off-grid split variant
            if let Some(v) = accumulator_check(spec, &var, out) {
                return Some(v);
            }
        }
    }
    // The same elapsed time as very many very short frames: 2048 frames of 2^-32 s (0.2328 ns each,
    // 476.8 ns together; every one of them and their sum exactly representable) after the trace
    // must move the time in state by what one frame of 2^-21 s moves it by, to the nanosecond.
    if scn.repartition_seed % 16 == 3 {
        let r = catch(|| {
            let run = |k: u32, dt: f32| {
                let mut anim = spec.build();
                for (op, _) in &scn.ops {
                    match op {
                        Op::Advance(dt) => anim.advance(*dt),
                        Op::SetState(s) => anim.set_state(&St::from_index(*s as usize)),
                    }
                }
                let before = anim.verif_snapshot().0;
                for _ in 0..k {
                    anim.advance(dt);
                }
                (before, anim.verif_snapshot().0)
            };
            (run(1, 2.0f32.powi(-21)), run(2048, 2.0f32.powi(-32)))
        });
        if let Ok(((b1, a1), (b2, a2))) = r {
            out.evaluations += 1;
            out.count("probe.sub_nanosecond_frames");
            let grew_one = a1.saturating_sub(b1);
            let grew_many = a2.saturating_sub(b2);
            let diff = if grew_one > grew_many { grew_one - grew_many } else { grew_many - grew_one };
            if b1 < Duration::from_secs(1_000_000_000) && diff > Duration::from_nanos(1) {
                return Some(viol(
                    "C06",
                    "sub-nanosecond-frames-lost",
                    scn.ops.len(),
                    format!(
                        "after the trace, 476.8 ns delivered as one frame of 2^-21 s move the time in state by {grew_one:?}; delivered as 2048 frames of 2^-32 s they move it by {grew_many:?}"
                    ),
                    "sub-ns".into(),
                ));
            }
        }
    }
    // advance(0) on the final state changes nothing (bit-exact), for every run
    let r = catch(|| {
        let mut anim = spec.build();
        for (op, _) in &scn.ops {
            match op {
                Op::Advance(dt) => anim.advance(*dt),
                Op::SetState(s) => anim.set_state(&St::from_index(*s as usize)),
            }
        }
        // an evaluation has happened unless the trace has no advance at all
        let b = (anim.current_values().clone(), anim.is_ended(), anim.verif_snapshot().0);
        anim.advance(0.0);
        let a = (anim.current_values().clone(), anim.is_ended(), anim.verif_snapshot().0);
        (b, a)
    });
    if let Ok((b, a)) = r {
        out.evaluations += 1;
        let evaluated = scn.ops.iter().any(|(o, _)| matches!(o, Op::Advance(_)));
        if evaluated {
            if let Some(f) = vals_bits_differ(&b.0, &a.0) {
                return Some(viol(
                    "C06",
                    "zero-advance-changed-result",
                    scn.ops.len(),
                    format!("advance(0) at the end of the trace changed field {f}: {} -> {}", vals_brief(&b.0), vals_brief(&a.0)),
                    "final-advance-0".into(),
                ));
            }
            if b.1 != a.1 || b.2 != a.2 {
                return Some(viol(
                    "C06",
                    "zero-advance-changed-result",
                    scn.ops.len(),
                    format!("advance(0) changed is_ended/time: {:?} {:?} -> {:?} {:?}", b.1, b.2, a.1, a.2),
                    "final-advance-0".into(),
                ));
            }
        }
    }
    None
}

/// Off-grid schedules: time in state must equal the exact sum of the delivered steps, and the
/// values must be the state's timeline evaluated at that accumulated time (reference model).
fn accumulator_check(spec: &AnimSpec, var: &Segmented, out: &mut RunOutcome) -> Option<Violation> {
    let r = catch(|| {
        let mut anim = spec.build();
        let mut model = Model::new(spec);
        let mut idx = 0usize;
        for (i, s) in var.segments.iter().enumerate() {
            let mut expect = anim.verif_snapshot().0;
            for dt in s {
                anim.advance(*dt);
                model.advance(*dt);
                expect = expect.saturating_add(to_duration(*dt));
                idx += 1;
                let tau = anim.verif_snapshot().0;
                if tau != expect {
                    return Some((idx, format!("time in state {tau:?} after steps {s:?}, exact sum of the steps is {expect:?}")));
                }
                if let Some(f) = model.accept(anim.current_values()) {
                    return Some((idx, format!(
                        "values {} differ from the timeline evaluated at the accumulated time {:?}: {} (field {f})",
                        vals_brief(anim.current_values()), model.tau, vals_brief(&model.values)
                    )));
                }
            }
            if i < var.sets.len() {
                anim.set_state(&St::from_index(var.sets[i] as usize));
                model.set_state(var.sets[i] as usize);
                idx += 1;
            }
        }
        None
    });
    out.evaluations += var.segments.iter().map(|s| s.len() as u64).sum::<u64>();
    match r {
        Ok(None) => None,
        Ok(Some((idx, msg))) => Some(viol(
            "C06",
            "accumulator-or-values",
            idx,
            msg,
            "offgrid".into(),
        )),
        Err(p) => Some(viol(
            "C06",
            &format!("panic@{}:{}", p.file, p.line),
            0,
            format!("off-grid schedule panicked: {}", p.describe()),
            "panic".into(),
        )),
    }
}
