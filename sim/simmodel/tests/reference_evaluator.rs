//! Self-test of the independent reference evaluator (`simmodel::oracle::ref_eval`) against the
//! worked examples printed in mina's own documentation (src/lib.rs doc comments and
//! tests/state_animator_test.rs), so that the oracle is anchored in the documented behaviour and
//! not only in agreement with the implementation it is later compared with.

use simmodel::oracle::{ref_eval, ref_position};
use simmodel::*;

fn kf(pos: f32, a: Option<f32>, n: Option<i32>) -> KfSpec {
    KfSpec {
        pos,
        a,
        b: None,
        n,
        k: None,
        easing: None,
        via_from: false,
    }
}

fn tl(duration: f32, delay: f32, repeat: Rep, reverse: bool, easing: &str, kfs: Vec<KfSpec>) -> MergedSpec {
    MergedSpec {
        parts: vec![TlSpec {
            duration,
            delay,
            repeat,
            reverse,
            easing: easing_id(easing).unwrap(),
            kfs,
        }],
    }
}

fn a_at(m: &MergedSpec, start: Option<&Vals>, t: f32) -> f32 {
    ref_eval(m, start, t)[0].unwrap().value
}

fn n_at(m: &MergedSpec, start: Option<&Vals>, t: f32) -> i32 {
    ref_eval(m, start, t)[2].unwrap().value.round() as i32
}

/// docs of `timeline!`: `Style 2s reverse Easing::Out from { alpha: 0.5, size: 50 } to { alpha: 1.0, size: 100 }`
#[test]
fn timeline_macro_doc_example() {
    let m = tl(
        2.0,
        0.0,
        Rep::None,
        true,
        "Out",
        vec![kf(0.0, Some(0.5), Some(50)), kf(1.0, Some(1.0), Some(100))],
    );
    let expect = [
        (0.25, 0.578125, 58),
        (0.5, 0.75, 75),
        (1.0, 1.0, 100),
        (1.25, 0.921875, 92),
        (1.5, 0.75, 75),
        (2.0, 0.5, 50),
    ];
    for (t, alpha, size) in expect {
        assert!((a_at(&m, None, t) - alpha).abs() < 1e-5, "alpha at {t}: {}", a_at(&m, None, t));
        assert_eq!(n_at(&m, None, t), size, "size at {t}");
    }
}

/// docs of derive(Animate): 5s, delay 1s, single keyframe at 100% { alpha: 1.0, size: 25 }: at 3.0 -> 0.4, 10
#[test]
fn derive_doc_example_with_delay_and_implicit_start() {
    let m = tl(5.0, 1.0, Rep::None, false, "Linear", vec![kf(1.0, Some(1.0), Some(25))]);
    assert!((a_at(&m, None, 3.0) - 0.4).abs() < 1e-6);
    assert_eq!(n_at(&m, None, 3.0), 10);
    // inside the delay the 0% value (type default) is shown
    assert_eq!(a_at(&m, None, 0.5), 0.0);
}

/// tests/state_animator_test.rs: blending from previous values, then looping from the
/// non-blended values (5s infinite: x 120 -> 20, entered at x = 60).
#[test]
fn blended_start_only_affects_first_forward_pass() {
    let m = tl(
        5.0,
        0.0,
        Rep::Infinite,
        false,
        "Linear",
        vec![kf(0.0, None, Some(120)), kf(1.0, None, Some(20))],
    );
    let start = Vals {
        n: 60,
        ..Vals::default()
    };
    let expect = [(0.0, 60), (1.0, 52), (2.0, 44), (4.0, 28), (5.0, 20), (6.0, 100), (7.0, 80), (10.0, 20), (11.0, 100)];
    for (t, x) in expect {
        assert_eq!(n_at(&m, Some(&start), t), x, "x at {t}");
    }
}

/// time_scale unit tests: reverse peaks at mid duration, ends at zero; repeat holds the end value
/// on exact multiples.
#[test]
fn positions() {
    let rev = TlSpec {
        duration: 20.0,
        delay: 0.0,
        repeat: Rep::None,
        reverse: true,
        easing: 0,
        kfs: vec![],
    };
    assert_eq!(ref_position(&rev, 10.0).pos, 1.0);
    assert_eq!(ref_position(&rev, 5.0).pos, 0.5);
    assert_eq!(ref_position(&rev, 15.0).pos, 0.5);
    assert_eq!(ref_position(&rev, 25.0).pos, 0.0);
    assert!(!ref_position(&rev, 25.0).use_start);
    let rep = TlSpec {
        duration: 10.0,
        delay: 2.0,
        repeat: Rep::Times(2),
        reverse: false,
        easing: 0,
        kfs: vec![],
    };
    assert_eq!(ref_position(&rep, 1.0).pos, 0.0);
    assert!(ref_position(&rep, 1.0).use_start);
    assert_eq!(ref_position(&rep, 7.0).pos, 0.5);
    assert!(ref_position(&rep, 7.0).use_start);
    assert_eq!(ref_position(&rep, 12.0).pos, 1.0); // exact multiple holds the end
    assert_eq!(ref_position(&rep, 17.0).pos, 0.5);
    assert!(!ref_position(&rep, 17.0).use_start);
    assert_eq!(ref_position(&rep, 40.0).pos, 1.0);
}

/// The reference evaluator and the real timeline agree on a dense sweep of one configuration with
/// sparse keyframes, easing carry-over and an implicit end frame.
#[test]
fn agrees_with_real_timeline_on_a_sweep() {
    use mina::prelude::*;
    let mut k1 = kf(0.25, Some(10.0), None);
    k1.easing = Some(easing_id("OutQuad").unwrap());
    let spec = tl(
        4.0,
        0.5,
        Rep::Times(1),
        true,
        "InOutCubic",
        vec![k1, kf(0.75, Some(-30.0), Some(12)), kf(0.5, None, Some(-40))],
    );
    let real = spec.build();
    for i in 0..2000 {
        let t = i as f32 * 0.005;
        let r = ref_eval(&spec, None, t);
        let mut v = Vals::default();
        real.update(&mut v, t);
        let ra = r[0].unwrap();
        if !ra.near_boundary {
            assert!((v.a - ra.value).abs() <= 1e-3, "a at {t}: real {} ref {}", v.a, ra.value);
            assert!((v.n as f32 - r[2].unwrap().value).abs() <= 0.51, "n at {t}");
        }
    }
}
