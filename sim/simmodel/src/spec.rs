use mina::prelude::*;
use mina::{EasingFunction, Keyframe};
use simkit::json::{f32_from_json, f32_to_json, Json};

/// Sentinel stored in the field that is excluded from animation.
pub const TAG_SENTINEL: u32 = 0xC0FF_EE11;
/// Different sentinel placed in values handed to `keyframe_from`, so that a broken animated-field
/// filter (copying `tag` into keyframes) becomes observable.
pub const TAG_FOREIGN: u32 = 0x0BAD_F00D;

pub const NUM_STATES: usize = 5;

/// The animated struct: four animated fields of three numeric types and one excluded field.
#[derive(Animate, Clone, Debug, Default, PartialEq)]
pub struct Vals {
    #[animate]
    pub a: f32,
    #[animate]
    pub b: f32,
    #[animate]
    pub n: i32,
    #[animate]
    pub k: u8,
    pub tag: u32,
}

#[derive(Clone, Copy, Debug, Default, Eq, PartialEq, Ord, PartialOrd, State)]
pub enum St {
    #[default]
    S0,
    S1,
    S2,
    S3,
    S4,
}

pub const ALL_STATES: [St; NUM_STATES] = [St::S0, St::S1, St::S2, St::S3, St::S4];

impl St {
    pub fn index(self) -> usize {
        self as usize
    }
    pub fn from_index(i: usize) -> St {
        ALL_STATES[i % NUM_STATES]
    }
}

pub type RealAnimator = EnumStateAnimator<St, ValsTimeline>;

/// Number of built-in easings; ids 29 and 30 are user-defined ones (`Easing::Custom`).
pub const NUM_EASINGS: u8 = 29;
pub const CUSTOM_STEPS: u8 = 29;
pub const CUSTOM_BEZIER: u8 = 30;

/// A user-defined easing in the style of CSS `steps(4, jump-end)`: a staircase with
/// calc(0) = 0 and calc(1) = 1 that stays within [0, 1] (discontinuous in between).
/// (A jump-*start* staircase has calc(0) != 0; with such an easing a blended timeline differs
/// from the entry values at its very first instant, which the animator documents away - "no
/// immediate effect" - so it is outside the domain of the blend properties and not generated.)
#[derive(Clone, Debug)]
pub struct StepsJumpEnd(pub u32);

impl EasingFunction for StepsJumpEnd {
    fn calc(&self, x: f32) -> f32 {
        let n = self.0 as f32;
        ((x * n).floor() / n).clamp(0.0, 1.0)
    }
}

pub const EASING_NAMES: [&str; 31] = [
    "Linear", "Ease", "In", "Out", "InOut", "InSine", "OutSine", "InOutSine", "InQuad", "OutQuad",
    "InOutQuad", "InCubic", "OutCubic", "InOutCubic", "InQuart", "OutQuart", "InOutQuart",
    "InQuint", "OutQuint", "InOutQuint", "InExpo", "OutExpo", "InOutExpo", "InCirc", "OutCirc",
    "InOutCirc", "InBack", "OutBack", "InOutBack", "CustomStepsJumpEnd4", "CustomBezier",
];

pub fn easing_of(id: u8) -> Easing {
    match id {
        0 => Easing::Linear,
        1 => Easing::Ease,
        2 => Easing::In,
        3 => Easing::Out,
        4 => Easing::InOut,
        5 => Easing::InSine,
        6 => Easing::OutSine,
        7 => Easing::InOutSine,
        8 => Easing::InQuad,
        9 => Easing::OutQuad,
        10 => Easing::InOutQuad,
        11 => Easing::InCubic,
        12 => Easing::OutCubic,
        13 => Easing::InOutCubic,
        14 => Easing::InQuart,
        15 => Easing::OutQuart,
        16 => Easing::InOutQuart,
        17 => Easing::InQuint,
        18 => Easing::OutQuint,
        19 => Easing::InOutQuint,
        20 => Easing::InExpo,
        21 => Easing::OutExpo,
        22 => Easing::InOutExpo,
        23 => Easing::InCirc,
        24 => Easing::OutCirc,
        25 => Easing::InOutCirc,
        26 => Easing::InBack,
        27 => Easing::OutBack,
        28 => Easing::InOutBack,
        29 => Easing::Custom(Box::new(StepsJumpEnd(4))),
        // (control points whose x coordinates lie outside [0, 1]: the library evaluates the curve's
        // y polynomial at the parameter and never looks at x, so this is a valid easing with
        // calc(0) = 0 and calc(1) = 1 - and a trap for a CSS-style range check)
        _ => Easing::Custom(Box::new(mina_core::easing::CubicBezierEasing::new(-0.3, 0.2, 1.4, 0.9))),
    }
}

pub fn is_back(id: u8) -> bool {
    (26..=28).contains(&id)
}

pub fn is_custom(id: u8) -> bool {
    id >= NUM_EASINGS
}

pub fn easing_calc(id: u8, x: f32) -> f32 {
    easing_of(id).calc(x)
}

#[derive(Clone, Copy, Debug, PartialEq, Eq)]
pub enum Rep {
    None,
    Times(u32),
    Infinite,
}

impl Rep {
    pub fn to_real(self) -> Repeat {
        match self {
            Rep::None => Repeat::None,
            Rep::Times(n) => Repeat::Times(n),
            Rep::Infinite => Repeat::Infinite,
        }
    }
    /// Number of cycles played, `None` for infinite.
    pub fn cycles(self) -> Option<f64> {
        match self {
            Rep::None => Some(1.0),
            Rep::Times(n) => Some(n as f64 + 1.0),
            Rep::Infinite => None,
        }
    }
}

/// One keyframe as given to the builder.
#[derive(Clone, Debug, PartialEq)]
pub struct KfSpec {
    pub pos: f32,
    pub a: Option<f32>,
    pub b: Option<f32>,
    pub n: Option<i32>,
    pub k: Option<u8>,
    pub easing: Option<u8>,
    /// Build through `Vals::keyframe_from(&values, pos)` (requires all four values).
    pub via_from: bool,
}

impl KfSpec {
    pub fn defines(&self, prop: usize) -> bool {
        match prop {
            0 => self.a.is_some(),
            1 => self.b.is_some(),
            2 => self.n.is_some(),
            _ => self.k.is_some(),
        }
    }
    pub fn is_empty(&self) -> bool {
        self.a.is_none() && self.b.is_none() && self.n.is_none() && self.k.is_none()
    }
}

/// One (non-merged) timeline. `kfs` is in *insertion order* (any permutation is legal input).
#[derive(Clone, Debug, PartialEq)]
pub struct TlSpec {
    pub duration: f32,
    pub delay: f32,
    pub repeat: Rep,
    pub reverse: bool,
    pub easing: u8,
    pub kfs: Vec<KfSpec>,
}

#[derive(Clone, Debug, PartialEq)]
pub struct MergedSpec {
    pub parts: Vec<TlSpec>,
}

#[derive(Clone, Debug, PartialEq)]
pub struct AnimSpec {
    pub states: Vec<Option<MergedSpec>>, // NUM_STATES entries
    pub initial_state: u8,
    pub initial_values: Vals,
}

pub const PROP_NAMES: [&str; 4] = ["a", "b", "n", "k"];

impl TlSpec {
    pub fn keyframes_prop(&self, prop: usize) -> bool {
        self.kfs.iter().any(|k| k.defines(prop))
    }

    pub fn build(&self) -> ValsTimeline {
        TimelineBuilder::build(self.configuration())
    }

    /// The un-built configuration (accepted directly by `StateAnimatorBuilder::on`).
    pub fn configuration(&self) -> mina::TimelineConfiguration<ValsKeyframeData> {
        let mut cfg = Vals::timeline()
            .duration_seconds(self.duration)
            .delay_seconds(self.delay)
            .default_easing(easing_of(self.easing))
            .repeat(self.repeat.to_real())
            .reverse(self.reverse);
        for kf in &self.kfs {
            let mut b = if kf.via_from {
                let v = Vals {
                    a: kf.a.unwrap_or_default(),
                    b: kf.b.unwrap_or_default(),
                    n: kf.n.unwrap_or_default(),
                    k: kf.k.unwrap_or_default(),
                    tag: TAG_FOREIGN,
                };
                Vals::keyframe_from(&v, kf.pos)
            } else {
                let mut b = Vals::keyframe(kf.pos);
                if let Some(v) = kf.a {
                    b = b.a(v);
                }
                if let Some(v) = kf.b {
                    b = b.b(v);
                }
                if let Some(v) = kf.n {
                    b = b.n(v);
                }
                if let Some(v) = kf.k {
                    b = b.k(v);
                }
                b
            };
            if let Some(e) = kf.easing {
                b = b.easing(easing_of(e));
            }
            cfg = cfg.keyframe(b);
        }
        cfg
    }

    /// Is the given easing in force anywhere in this timeline (default or per keyframe)?
    pub fn uses_easing(&self, e: u8) -> bool {
        self.easing == e || self.kfs.iter().any(|k| k.easing == Some(e))
    }

    pub fn uses_back(&self) -> bool {
        is_back(self.easing) || self.kfs.iter().any(|k| k.easing.map(is_back).unwrap_or(false))
    }
}

impl MergedSpec {
    pub fn build(&self) -> MergedTimeline<ValsTimeline> {
        if self.parts.len() == 1 && self.parts[0].kfs.len() % 2 == 1 {
            // wrapping a single timeline: the `From` conversion
            MergedTimeline::from(self.parts[0].build())
        } else {
            MergedTimeline::of(self.parts.iter().map(|p| p.build()))
        }
    }
    pub fn keyframes_prop(&self, prop: usize) -> bool {
        self.parts.iter().any(|p| p.keyframes_prop(prop))
    }
    pub fn total_keyframes(&self) -> usize {
        self.parts.iter().map(|p| p.kfs.len()).sum()
    }
}

impl AnimSpec {
    pub fn build(&self) -> RealAnimator {
        // The builder is documented as order-insensitive: in a third of the specifications the
        // timelines are registered first and the initial state / values are given last.
        let defaults_last = (self.initial_state as usize + self.states.iter().flatten().count()) % 3 == 0;
        let mut b = StateAnimatorBuilder::new();
        let mut shared_definitions: std::collections::BTreeMap<usize, MergedTimeline<ValsTimeline>> = std::collections::BTreeMap::new();
        if !defaults_last {
            b = b
                .from_state(St::from_index(self.initial_state as usize))
                .from_values(self.initial_values.clone());
        }
        for (i, st) in self.states.iter().enumerate() {
            if let Some(m) = st {
                // "Multiple calls to on with the same state result in the most recent timeline
                // being used": some states first get a decoy that keyframes every property
                if (i + m.total_keyframes()) % 4 == 1 {
                    b = b.on(
                        St::from_index(i),
                        Vals::timeline()
                            .duration_seconds(3.0)
                            .keyframe(Vals::keyframe(0.0).a(-777.0).b(777.0).n(-777).k(77))
                            .keyframe(Vals::keyframe(1.0).a(555.0).b(-555.0).n(555).k(55)),
                    );
                }
                // every accepted argument form of `on` is used, chosen by the shape of the spec:
                // a merged timeline, a built plain timeline, or the configuration builder itself
                // two states given the same animation definition get clones of ONE merged
                // timeline (`.on(A, t.clone()).on(B, t)`, which is also what an `A | B =>` arm
                // of `animator!` installs): sharing a definition must not be observable
                if let Some(j) = (0..i).find(|j| self.states[*j].as_ref() == Some(m)) {
                    let _ = j;
                    let shared = shared_definitions.entry(j).or_insert_with(|| m.build());
                    b = b.on(St::from_index(i), shared.clone());
                    continue;
                }
                if self.states[i + 1..].iter().any(|o| o.as_ref() == Some(m)) {
                    let shared = shared_definitions.entry(i).or_insert_with(|| m.build());
                    b = b.on(St::from_index(i), shared.clone());
                    continue;
                }
                b = if m.parts.len() == 1 {
                    match (i + m.parts[0].kfs.len()) % 3 {
                        0 => b.on(St::from_index(i), m.build()),
                        1 => b.on(St::from_index(i), m.parts[0].build()),
                        _ => b.on(St::from_index(i), m.parts[0].configuration()),
                    }
                } else {
                    b.on(St::from_index(i), m.build())
                };
            }
        }
        if defaults_last {
            b = b
                .from_values(self.initial_values.clone())
                .from_state(St::from_index(self.initial_state as usize));
        }
        b.build()
    }

    pub fn animated(&self, state: usize) -> bool {
        self.states[state].is_some()
    }
}

// ---------------------------------------------------------------------------------------------
// JSON
// ---------------------------------------------------------------------------------------------

pub fn vals_to_json(v: &Vals) -> Json {
    Json::obj()
        .set("a", f32_to_json(v.a))
        .set("b", f32_to_json(v.b))
        .set("n", v.n)
        .set("k", v.k)
        .set("tag", v.tag)
}

pub fn vals_from_json(j: &Json) -> Result<Vals, String> {
    Ok(Vals {
        a: f32_from_json(j.req("a")?)?,
        b: f32_from_json(j.req("b")?)?,
        n: j.req("n")?.as_i64()? as i32,
        k: j.req("k")?.as_i64()? as u8,
        tag: j.req("tag")?.as_u32()?,
    })
}

pub fn vals_brief(v: &Vals) -> String {
    format!("{{a:{:?}, b:{:?}, n:{}, k:{}, tag:{:#x}}}", v.a, v.b, v.n, v.k, v.tag)
}

fn opt_f32(j: Option<&Json>) -> Result<Option<f32>, String> {
    match j {
        None | Some(Json::Null) => Ok(None),
        Some(v) => Ok(Some(f32_from_json(v)?)),
    }
}

impl KfSpec {
    pub fn to_json(&self) -> Json {
        let mut j = Json::obj().set("pos", f32_to_json(self.pos));
        if let Some(v) = self.a {
            j.put("a", f32_to_json(v));
        }
        if let Some(v) = self.b {
            j.put("b", f32_to_json(v));
        }
        if let Some(v) = self.n {
            j.put("n", v);
        }
        if let Some(v) = self.k {
            j.put("k", v);
        }
        if let Some(e) = self.easing {
            j.put("easing", EASING_NAMES[e as usize]);
        }
        if self.via_from {
            j.put("via_keyframe_from", true);
        }
        j
    }

    pub fn from_json(j: &Json) -> Result<KfSpec, String> {
        Ok(KfSpec {
            pos: f32_from_json(j.req("pos")?)?,
            a: opt_f32(j.get("a"))?,
            b: opt_f32(j.get("b"))?,
            n: match j.get("n") {
                None | Some(Json::Null) => None,
                Some(v) => Some(v.as_i64()? as i32),
            },
            k: match j.get("k") {
                None | Some(Json::Null) => None,
                Some(v) => Some(v.as_i64()? as u8),
            },
            easing: match j.get("easing") {
                None | Some(Json::Null) => None,
                Some(v) => Some(easing_id(v.as_str()?)?),
            },
            via_from: match j.get("via_keyframe_from") {
                Some(v) => v.as_bool()?,
                None => false,
            },
        })
    }
}

pub fn easing_id(name: &str) -> Result<u8, String> {
    EASING_NAMES
        .iter()
        .position(|n| *n == name)
        .map(|p| p as u8)
        .ok_or_else(|| format!("unknown easing {name}"))
}

impl Rep {
    pub fn to_json(&self) -> Json {
        match self {
            Rep::None => Json::Str("none".into()),
            Rep::Times(n) => Json::Int(*n as i64),
            Rep::Infinite => Json::Str("infinite".into()),
        }
    }
    pub fn from_json(j: &Json) -> Result<Rep, String> {
        match j {
            Json::Str(s) if s == "none" => Ok(Rep::None),
            Json::Str(s) if s == "infinite" => Ok(Rep::Infinite),
            Json::Int(_) => Ok(Rep::Times(j.as_u32()?)),
            _ => Err(format!("bad repeat {j:?}")),
        }
    }
}

impl TlSpec {
    pub fn to_json(&self) -> Json {
        Json::obj()
            .set("duration", f32_to_json(self.duration))
            .set("delay", f32_to_json(self.delay))
            .set("repeat", self.repeat.to_json())
            .set("reverse", self.reverse)
            .set("easing", EASING_NAMES[self.easing as usize])
            .set(
                "keyframes_in_insertion_order",
                Json::Arr(self.kfs.iter().map(|k| k.to_json()).collect()),
            )
    }

    pub fn from_json(j: &Json) -> Result<TlSpec, String> {
        Ok(TlSpec {
            duration: f32_from_json(j.req("duration")?)?,
            delay: f32_from_json(j.req("delay")?)?,
            repeat: Rep::from_json(j.req("repeat")?)?,
            reverse: j.req("reverse")?.as_bool()?,
            easing: easing_id(j.req("easing")?.as_str()?)?,
            kfs: j
                .req("keyframes_in_insertion_order")?
                .as_arr()?
                .iter()
                .map(KfSpec::from_json)
                .collect::<Result<_, _>>()?,
        })
    }
}

impl MergedSpec {
    pub fn to_json(&self) -> Json {
        Json::Arr(self.parts.iter().map(|p| p.to_json()).collect())
    }
    pub fn from_json(j: &Json) -> Result<MergedSpec, String> {
        Ok(MergedSpec {
            parts: j
                .as_arr()?
                .iter()
                .map(TlSpec::from_json)
                .collect::<Result<_, _>>()?,
        })
    }
}

impl AnimSpec {
    pub fn to_json(&self) -> Json {
        Json::obj()
            .set("initial_state", self.initial_state)
            .set("initial_values", vals_to_json(&self.initial_values))
            .set(
                "states",
                Json::Arr(
                    self.states
                        .iter()
                        .map(|s| match s {
                            Some(m) => m.to_json(),
                            None => Json::Null,
                        })
                        .collect(),
                ),
            )
    }

    pub fn from_json(j: &Json) -> Result<AnimSpec, String> {
        let states = j
            .req("states")?
            .as_arr()?
            .iter()
            .map(|s| {
                if s.is_null() {
                    Ok(None)
                } else {
                    MergedSpec::from_json(s).map(Some)
                }
            })
            .collect::<Result<Vec<_>, String>>()?;
        if states.len() != NUM_STATES {
            return Err(format!("expected {NUM_STATES} states"));
        }
        Ok(AnimSpec {
            states,
            initial_state: j.req("initial_state")?.as_i64()? as u8,
            initial_values: vals_from_json(j.req("initial_values")?)?,
        })
    }
}

/// Numeric equality of two value sets ("unchanged"): floats compared numerically (so that
/// `-0.0 == +0.0`), integers exactly. Returns the name of the first differing field.
pub fn vals_differ(x: &Vals, y: &Vals) -> Option<&'static str> {
    if !(x.a == y.a) {
        return Some("a");
    }
    if !(x.b == y.b) {
        return Some("b");
    }
    if x.n != y.n {
        return Some("n");
    }
    if x.k != y.k {
        return Some("k");
    }
    if x.tag != y.tag {
        return Some("tag");
    }
    None
}

pub fn vals_bits_differ(x: &Vals, y: &Vals) -> Option<&'static str> {
    if x.a.to_bits() != y.a.to_bits() {
        return Some("a");
    }
    if x.b.to_bits() != y.b.to_bits() {
        return Some("b");
    }
    if x.n != y.n {
        return Some("n");
    }
    if x.k != y.k {
        return Some("k");
    }
    if x.tag != y.tag {
        return Some("tag");
    }
    None
}

pub fn hash_vals(h: &mut simkit::ObsHash, v: &Vals) {
    h.f32(v.a);
    h.f32(v.b);
    h.u32(v.n as u32);
    h.u32(v.k as u32);
    h.u32(v.tag);
}

/// Keeps `Keyframe` in the public signature surface so a mina API change is a compile error here.
#[allow(dead_code)]
fn _api_surface(_: Keyframe<ValsKeyframeData>) {}
