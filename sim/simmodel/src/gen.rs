//! Swarm-style generation of timeline / animator specifications: every run draws its own knobs
//! first, then its configuration from those knobs.

use crate::spec::*;
use simkit::rng::Rng;

#[derive(Clone, Debug)]
pub struct Knobs {
    /// Exact time grid: every duration, delay and step is a multiple of 1/8 s.
    pub grid: bool,
    pub p_state_animated: f64,
    pub p_delay: f64,
    pub p_times: f64,
    pub p_infinite: f64,
    pub p_reverse: f64,
    pub p_merged: f64,
    pub max_kfs: usize,
    pub p_permute: f64,
    pub p_prop_in_kf: f64,
    pub p_kf_easing: f64,
    pub easing_pool: Vec<u8>,
    /// 0 = small integers, 1 = dyadic fractions, 2 = arbitrary f32.
    pub value_style: u8,
    pub p_via_from: f64,
    pub p_zero_keyframes: f64,
    pub p_empty_merged: f64,
    /// If non-empty, every float / i32 / u8 value of the run is drawn from this small palette
    /// (always containing the type default 0), so that exact coincidences - two keyframes with
    /// equal values, a value equal to the type default, an entry value equal to a timeline's own
    /// 0% value - are frequent instead of astronomically rare.
    pub palette: Vec<i32>,
    /// probability that one keyframe of a timeline is split into two keyframes at the same
    /// position defining disjoint sets of properties
    pub p_split_keyframe: f64,
    /// C20 domain: boundary repeat counts, extreme but finite durations/delays/values.
    pub extreme: bool,
    /// u8 values restricted to [64,191] because a Back easing may overshoot (documented panic).
    pub narrow_u8: bool,
}

pub fn gen_knobs(rng: &mut Rng, extreme: bool) -> Knobs {
    gen_knobs_with(rng, extreme, false)
}

pub fn gen_knobs_with(rng: &mut Rng, extreme: bool, allow_custom: bool) -> Knobs {
    let grid = rng.chance(0.6);
    // Easing pool: swarm - sometimes only linear, sometimes a few, sometimes all.
    let mut pool: Vec<u8> = Vec::new();
    match rng.below(4) {
        0 => pool.push(0),
        1 => {
            for _ in 0..3 {
                pool.push(rng.below(NUM_EASINGS as u64) as u8);
            }
        }
        2 => {
            for e in 0..26u8 {
                pool.push(e);
            }
        }
        _ => {
            for e in 0..NUM_EASINGS {
                pool.push(e);
            }
        }
    }
    // User-defined easings (Easing::Custom) join the pool in some runs. They are kept out of
    // the C04 domain by the caller (C04 is stated for built-in easings: a custom easing with
    // calc(0) != 0 makes a blended timeline differ from the entry values at its very first instant).
    if allow_custom && rng.chance(0.25) {
        pool.push(CUSTOM_STEPS);
        pool.push(CUSTOM_BEZIER);
    }
    let narrow_u8 = pool.iter().any(|e| is_back(*e));
    Knobs {
        grid,
        p_state_animated: *rng.pick(&[0.3, 0.5, 0.7, 0.9]),
        p_delay: *rng.pick(&[0.0, 0.3, 0.6]),
        p_times: *rng.pick(&[0.0, 0.25, 0.5]),
        p_infinite: *rng.pick(&[0.0, 0.1, 0.3]),
        p_reverse: *rng.pick(&[0.0, 0.3, 0.6]),
        p_merged: *rng.pick(&[0.0, 0.3, 0.6]),
        max_kfs: *rng.pick(&[1usize, 2, 3, 4, 6, 9]),
        p_permute: *rng.pick(&[0.0, 0.5, 1.0]),
        p_prop_in_kf: *rng.pick(&[0.35, 0.6, 0.9]),
        p_kf_easing: *rng.pick(&[0.0, 0.3, 0.7]),
        easing_pool: pool,
        value_style: rng.below(3) as u8,
        p_via_from: *rng.pick(&[0.0, 0.15]),
        p_zero_keyframes: *rng.pick(&[0.0, 0.1]),
        p_empty_merged: *rng.pick(&[0.0, 0.05]),
        p_split_keyframe: *rng.pick(&[0.0, 0.0, 0.2]),
        palette: if !extreme && rng.chance(0.3) {
            let mut p = vec![0];
            for _ in 0..rng.range(1, 3) {
                p.push(rng.range(-60, 120) as i32);
            }
            p
        } else {
            Vec::new()
        },
        extreme,
        narrow_u8,
    }
}

pub fn gen_f32_value(rng: &mut Rng, k: &Knobs) -> f32 {
    if !k.palette.is_empty() {
        return *rng.pick(&k.palette) as f32;
    }
    if k.extreme && rng.chance(0.15) {
        let sign = if rng.chance(0.5) { -1.0 } else { 1.0 };
        // Values close to the largest finite f32 (and of either sign, so that differences of two
        // values overflow although every convex combination is finite) - unless a Back easing may
        // legitimately overshoot beyond the keyframe values.
        if !k.narrow_u8 && rng.chance(0.4) {
            return sign * *rng.pick(&[3.0e38f32, 2.5e38, 1.7e38, f32::MAX / 1.0001]);
        }
        let mag = *rng.pick(&[1e-30f32, 1e-10, 1e10, 1e20, 1e30]);
        return sign * mag * (1.0 + rng.unit() as f32);
    }
    match k.value_style {
        0 => rng.range(-100, 100) as f32,
        1 => rng.range(-1024, 1024) as f32 / 16.0,
        _ => (rng.unit() * 2000.0 - 1000.0) as f32,
    }
}

pub fn gen_i32_value(rng: &mut Rng, k: &Knobs) -> i32 {
    if !k.palette.is_empty() {
        return *rng.pick(&k.palette);
    }
    if rng.chance(0.1) {
        *rng.pick(&[-(1 << 20), 1 << 20, 0, -1, 1])
    } else if rng.chance(0.04) {
        // odd integers between 2^23 and 2^24: exact in f32, and exactly half-way cases for
        // "add one half and truncate" style rounding
        *rng.pick(&[8_388_609, 9_000_001, 11_111_111, 16_777_215, -9_000_001, -16_000_001])
    } else if k.value_style == 0 {
        rng.range(-100, 100) as i32
    } else {
        rng.range(-100_000, 100_000) as i32
    }
}

pub fn gen_u8_value(rng: &mut Rng, k: &Knobs) -> u8 {
    if !k.palette.is_empty() {
        return (*rng.pick(&k.palette)).clamp(0, 255) as u8;
    }
    if k.narrow_u8 {
        rng.range(64, 191) as u8
    } else if rng.chance(0.15) {
        *rng.pick(&[0u8, 255, 1, 254, 128])
    } else {
        rng.range(0, 255) as u8
    }
}

pub fn gen_vals(rng: &mut Rng, k: &Knobs) -> Vals {
    Vals {
        a: gen_f32_value(rng, k),
        b: gen_f32_value(rng, k),
        n: gen_i32_value(rng, k),
        k: gen_u8_value(rng, k),
        tag: TAG_SENTINEL,
    }
}

pub fn gen_duration(rng: &mut Rng, k: &Knobs) -> f32 {
    if k.grid {
        let m = if rng.chance(0.7) {
            rng.range(1, 16)
        } else {
            rng.range(1, 80)
        };
        m as f32 / 8.0
    } else if k.extreme && rng.chance(0.06) {
        // the smallest cycle durations there are: subnormal and just-normal numbers, for which
        // halves, reciprocals and products with small factors underflow or overflow
        *rng.pick(&[f32::from_bits(1), f32::from_bits(2), 1e-40f32, f32::MIN_POSITIVE, 2.0e-38, 3.0e-39])
    } else if k.extreme && rng.chance(0.2) {
        *rng.pick(&[1e-6f32, 1e-3, 1e4, 1e9, 1e15, 1e20]) * (1.0 + rng.unit() as f32)
    } else if rng.chance(0.004) {
        // rarely a cycle longer than the largest number of seconds a `Duration` can hold
        // (1.8e19 s): finite, representable in f32, and beyond the range of a nanosecond clock
        *rng.pick(&[2.0e19f32, 1.0e20, 7.0e21])
    } else if rng.chance(0.015) {
        // rarely a cycle far shorter than any frame: tens of nanoseconds to tens of microseconds
        // (valid - the cycle duration only has to be positive - and below what guards against
        // "empty" cycles tend to assume)
        *rng.pick(&[5.9604645e-8f32, 5.0e-8, 1.0e-7, 3.0e-7, 1.0e-6, 2.5e-5])
    } else {
        // log-uniform in [0.01, 50]
        (0.01f64 * (5000f64).powf(rng.unit())) as f32
    }
}

pub fn gen_delay(rng: &mut Rng, k: &Knobs) -> f32 {
    if !rng.chance(k.p_delay) {
        return 0.0;
    }
    if k.grid {
        rng.range(1, 24) as f32 / 8.0
    } else if k.extreme && rng.chance(0.2) {
        *rng.pick(&[1e-9f32, 1e-4, 1e5, 1e12, 1e20]) * (1.0 + rng.unit() as f32)
    } else {
        (0.001f64 * (20000f64).powf(rng.unit())) as f32
    }
}

pub fn gen_repeat(rng: &mut Rng, k: &Knobs) -> Rep {
    if k.extreme && rng.chance(0.3) {
        return Rep::Times(*rng.pick(&[0u32, 1, 2, u32::MAX - 1, u32::MAX, 1 << 24, (1 << 24) + 1]));
    }
    if rng.chance(0.02) {
        // boundary repeat counts are legal everywhere, not only in the C20 domain
        return Rep::Times(*rng.pick(&[u32::MAX, u32::MAX - 1, 1 << 24, 1000, (1 << 24) + 1, (1 << 24) + 3, (1 << 25) + 2, 100_000_001]));
    }
    if rng.chance(k.p_infinite) {
        Rep::Infinite
    } else if rng.chance(k.p_times) {
        Rep::Times(*rng.pick(&[0u32, 1, 1, 2, 2, 3, 5]))
    } else {
        Rep::None
    }
}

fn gen_positions(rng: &mut Rng, k: &Knobs, count: usize) -> Vec<f32> {
    // Distinct positions in [0,1]; 0 and 1 are over-represented on purpose.
    let mut out: Vec<f32> = Vec::new();
    let mut guard = 0;
    while out.len() < count && guard < 200 {
        guard += 1;
        let p = match rng.below(6) {
            // (rarely a hair above 0%: closer to 0 than f32::EPSILON, yet a distinct position)
            // (subnormal positions: the gap to 0% has no finite reciprocal)
            0 if rng.chance(0.04) => *rng.pick(&[1.0e-9f32, f32::MIN_POSITIVE, 1.0e-7, 5.0e-8, 1.0e-40, f32::from_bits(1)]),
            // (and rarely a hair below 100%)
            1 if rng.chance(0.02) => *rng.pick(&[1.0 - f32::EPSILON / 2.0, 1.0 - f32::EPSILON]),
            0 => 0.0,
            1 => 1.0,
            2 | 3 => rng.range(1, 7) as f32 / 8.0,
            _ => {
                if k.grid || k.value_style < 2 {
                    rng.range(1, 99) as f32 / 100.0
                } else {
                    rng.unit() as f32
                }
            }
        };
        if !out.iter().any(|q| *q == p) {
            out.push(p);
        }
    }
    out.sort_by(|a, b| a.total_cmp(b));
    out
}

pub fn gen_timeline(rng: &mut Rng, k: &Knobs) -> TlSpec {
    let n_kfs = if rng.chance(k.p_zero_keyframes) {
        0
    } else {
        rng.range(1, k.max_kfs as i64) as usize
    };
    // Rarely: very many keyframes (dozens; hundreds - more frames for one property than fit in a
    // byte), at evenly spread distinct positions.
    let many = if rng.chance(0.006) {
        Some(rng.range(17, 70) as usize)
    } else if rng.chance(0.0015) {
        Some(rng.range(258, 420) as usize)
    } else if rng.chance(0.00004) {
        // a baked curve: more frames for one property than fit in 16 bits
        Some(rng.range(65_600, 70_000) as usize)
    } else if rng.chance(0.0003) {
        // a sampled curve of a few thousand frames (between the two sizes above)
        Some(*rng.pick(&[1000usize, 2047, 2048, 2049, 2400, 4096, 5000]))
    } else {
        None
    };
    let positions = match many {
        Some(n) => {
            // sample i of n at (i + offset) / n: offset 0 is the natural layout of a sampled loop
            // (first sample at 0 %, last one at (n-1)/n, nothing at 100 %)
            let offset = if n >= 1000 { *rng.pick(&[0.5f32, 0.0, 0.0, 0.25]) } else { 0.5 };
            (0..n).map(|i| (i as f32 + if i == 0 { 0.0 } else { offset }) / n as f32).collect()
        }
        None => gen_positions(rng, k, n_kfs),
    };
    // Per-timeline subset of properties that may appear (so some properties stay un-animated).
    let mut allowed = [false; 4];
    for slot in allowed.iter_mut() {
        *slot = rng.chance(0.65);
    }
    if !allowed.iter().any(|x| *x) {
        allowed[rng.usize_below(4)] = true;
    }
    let mut kfs = Vec::new();
    for pos in positions {
        let via_from = rng.chance(k.p_via_from);
        let mut kf = KfSpec {
            pos,
            a: None,
            b: None,
            n: None,
            k: None,
            easing: None,
            via_from,
        };
        if via_from {
            kf.a = Some(gen_f32_value(rng, k));
            kf.b = Some(gen_f32_value(rng, k));
            kf.n = Some(gen_i32_value(rng, k));
            kf.k = Some(gen_u8_value(rng, k));
        } else {
            // (in a many-keyframe timeline every keyframe defines `a`, so that this one property
            // really has that many frames)
            if many.is_some() || (allowed[0] && rng.chance(k.p_prop_in_kf)) {
                kf.a = Some(gen_f32_value(rng, k));
            }
            if allowed[1] && rng.chance(k.p_prop_in_kf) {
                kf.b = Some(gen_f32_value(rng, k));
            }
            if (many.is_some() && rng.chance(0.5)) || (allowed[2] && rng.chance(k.p_prop_in_kf)) {
                kf.n = Some(gen_i32_value(rng, k));
            }
            if allowed[3] && rng.chance(k.p_prop_in_kf) {
                kf.k = Some(gen_u8_value(rng, k));
            }
        }
        if rng.chance(k.p_kf_easing) {
            kf.easing = Some(*rng.pick(&k.easing_pool));
        }
        kfs.push(kf);
    }
    // Two keyframes may share a position as long as no property is defined twice there
    // ("distinct keyframe positions per property"): split one keyframe's properties in two.
    if k.p_split_keyframe > 0.0 && rng.chance(k.p_split_keyframe) && !kfs.is_empty() {
        let i = rng.usize_below(kfs.len());
        let src = kfs[i].clone();
        if !src.via_from && [src.a.is_some(), src.b.is_some(), src.n.is_some(), src.k.is_some()].iter().filter(|x| **x).count() >= 2 {
            let mut first = src.clone();
            let mut second = src.clone();
            second.easing = if rng.chance(0.3) { Some(*rng.pick(&k.easing_pool)) } else { None };
            let mut toggle = rng.chance(0.5);
            for prop in 0..4 {
                if src.defines(prop) {
                    let (keep, drop) = if toggle { (&mut first, &mut second) } else { (&mut second, &mut first) };
                    let _ = keep;
                    match prop {
                        0 => drop.a = None,
                        1 => drop.b = None,
                        2 => drop.n = None,
                        _ => drop.k = None,
                    }
                    toggle = !toggle;
                }
            }
            if !first.is_empty() && !second.is_empty() {
                kfs[i] = first;
                kfs.insert(i + 1, second);
            }
        }
    }
    if rng.chance(k.p_permute) {
        rng.shuffle(&mut kfs);
    }
    let mut tl = TlSpec {
        duration: gen_duration(rng, k),
        delay: gen_delay(rng, k),
        repeat: gen_repeat(rng, k),
        reverse: rng.chance(k.p_reverse),
        easing: *rng.pick(&k.easing_pool),
        kfs,
    };
    sanitize_total(&mut tl);
    strip_u8_under_back(&mut tl);
    tl
}

/// A u8 property eased with a Back curve can leave the type's range: from the implicit 0% default,
/// or by ratcheting outwards when a state animator re-blends again and again (every blend starts
/// with an undershoot away from the target). That is the *documented* integer-overshoot panic of
/// `Lerp`, not a defect, so timelines in which a Back easing is in force never keyframe `k`.
pub fn strip_u8_under_back(tl: &mut TlSpec) {
    if tl.uses_back() {
        for kf in tl.kfs.iter_mut() {
            kf.k = None;
            kf.via_from = false;
        }
    }
}

/// Inputs the generator never produces and the shrinkers must not produce either.
pub fn timeline_is_in_domain(tl: &TlSpec) -> bool {
    !(tl.uses_back() && tl.kfs.iter().any(|k| k.k.is_some()))
}

pub fn merged_is_in_domain(m: &MergedSpec) -> bool {
    m.parts.iter().all(timeline_is_in_domain)
}

/// Keeps the total duration representable in f32 (otherwise "finite in => finite out" is
/// unsatisfiable and the configuration is outside the properties' domain).
pub fn sanitize_total(tl: &mut TlSpec) {
    if let Some(c) = tl.repeat.cycles() {
        let total = tl.delay as f64 + tl.duration as f64 * c;
        if total > 1e36 {
            tl.duration = 1.0;
            tl.delay = tl.delay.min(1e20);
        }
    }
}

pub fn gen_merged(rng: &mut Rng, k: &Knobs) -> MergedSpec {
    if rng.chance(k.p_empty_merged) {
        return MergedSpec { parts: vec![] };
    }
    let n = if rng.chance(k.p_merged) {
        rng.range(2, 3) as usize
    } else {
        1
    };
    let mut parts: Vec<TlSpec> = (0..n).map(|_| gen_timeline(rng, k)).collect();
    // One merge in sixteen is a large one: 2..6 further components, drawn from a stream of its own
    // that is seeded by what the main stream has produced (so that every other draw of the run
    // is what it was before large merges existed).
    if n >= 2 {
        let mut h = parts.iter().fold(0x6c61_7267_65u64, |h, p| {
            h.rotate_left(9) ^ (p.duration.to_bits() as u64) ^ ((p.delay.to_bits() as u64) << 32) ^ ((p.kfs.len() as u64) << 24)
        });
        if simkit::rng::splitmix64(&mut h) % 16 == 0 {
            let mut r = Rng::new(h);
            for _ in 0..r.range(2, 6) {
                parts.push(gen_timeline(&mut r, k));
            }
        }
    }
    MergedSpec { parts }
}

pub fn gen_anim_spec(rng: &mut Rng, k: &Knobs) -> AnimSpec {
    let mut states: Vec<Option<MergedSpec>> = Vec::new();
    for _ in 0..NUM_STATES {
        if rng.chance(k.p_state_animated) {
            states.push(Some(gen_merged(rng, k)));
        } else {
            states.push(None);
        }
    }
    AnimSpec {
        states,
        initial_state: rng.below(NUM_STATES as u64) as u8,
        initial_values: gen_vals(rng, k),
    }
}
