//! Configuration-derived oracles. Nothing in this file calls into mina: end instants, terminal
//! values and phases are computed from the *specification* in exact (f64) arithmetic, so they are
//! independent of `TimeScale::get_duration`, `MergedTimeline::duration` and the frame lookup.

use crate::spec::*;

#[derive(Clone, Copy, Debug, PartialEq)]
pub enum PropVal {
    F(f32),
    I(i64),
}

/// End instant of one timeline: delay + cycle x (repeats + 1); `None` when infinite.
pub fn tl_total(t: &TlSpec) -> Option<f64> {
    t.repeat
        .cycles()
        .map(|c| t.delay as f64 + t.duration as f64 * c)
}

/// End instant of a merged timeline: the maximum over components, `None` if any is infinite,
/// 0 for an empty list.
pub fn merged_total(m: &MergedSpec) -> Option<f64> {
    let mut max = 0.0f64;
    for p in &m.parts {
        match tl_total(p) {
            None => return None,
            Some(t) => {
                if t > max {
                    max = t
                }
            }
        }
    }
    Some(max)
}

pub fn merged_min_delay(m: &MergedSpec) -> f64 {
    m.parts
        .iter()
        .map(|p| p.delay as f64)
        .fold(f64::INFINITY, f64::min)
        .min(f64::MAX)
}

pub fn kf_value(k: &KfSpec, prop: usize) -> Option<PropVal> {
    match prop {
        0 => k.a.map(PropVal::F),
        1 => k.b.map(PropVal::F),
        2 => k.n.map(|v| PropVal::I(v as i64)),
        _ => k.k.map(|v| PropVal::I(v as i64)),
    }
}

fn default_value(prop: usize) -> PropVal {
    if prop < 2 {
        PropVal::F(0.0)
    } else {
        PropVal::I(0)
    }
}

/// Terminal value of property `prop` for one timeline that keyframes it: for a non-reversing
/// timeline the value of its highest-position keyframe defining the property (held to 100%), for
/// a reversing timeline the value of its keyframe at exactly 0% if it has one, else the type
/// default. `None` if the timeline never keyframes the property.
pub fn tl_terminal(t: &TlSpec, prop: usize) -> Option<PropVal> {
    let mut defining: Vec<&KfSpec> = t.kfs.iter().filter(|k| k.defines(prop)).collect();
    if defining.is_empty() {
        return None;
    }
    defining.sort_by(|x, y| x.pos.total_cmp(&y.pos));
    if t.reverse {
        let first = defining[0];
        if first.pos == 0.0 {
            kf_value(first, prop)
        } else {
            Some(default_value(prop))
        }
    } else {
        kf_value(defining[defining.len() - 1], prop)
    }
}

/// The un-substituted value at 0% of one timeline for a property it keyframes.
pub fn tl_start(t: &TlSpec, prop: usize) -> Option<PropVal> {
    let mut defining: Vec<&KfSpec> = t.kfs.iter().filter(|k| k.defines(prop)).collect();
    if defining.is_empty() {
        return None;
    }
    defining.sort_by(|x, y| x.pos.total_cmp(&y.pos));
    if defining[0].pos == 0.0 {
        kf_value(defining[0], prop)
    } else {
        Some(default_value(prop))
    }
}

/// Terminal value of a merged timeline: the last component that keyframes the property decides.
pub fn merged_terminal(m: &MergedSpec, prop: usize) -> Option<PropVal> {
    m.parts.iter().rev().find_map(|p| tl_terminal(p, prop))
}

pub fn merged_start(m: &MergedSpec, prop: usize) -> Option<PropVal> {
    m.parts.iter().rev().find_map(|p| tl_start(p, prop))
}

pub fn get_prop(v: &Vals, prop: usize) -> PropVal {
    match prop {
        0 => PropVal::F(v.a),
        1 => PropVal::F(v.b),
        2 => PropVal::I(v.n as i64),
        _ => PropVal::I(v.k as i64),
    }
}

/// How far - relative to the largest magnitude involved - a value may be from its terminal value
/// when the evaluation happened within a rounding or two of an off-grid end instant ("in the
/// band"), or `None` when one rounding can legitimately carry the value anywhere.
///
/// The evaluation time is an f32 of the size of the total `U` (delay included), so its rounding is
/// `eps x U`; relative to one cycle that is `d = 8 eps x U / cycle` of the normalised position
/// (x2 when reversing). Across a keyframe segment of length `g` next to the terminal position the
/// eased interpolation parameter moves by `r = d / g`, and a built-in curve moves a value by at
/// most `max(sqrt(r), 20 r)` of the segment's range (the circular easings have a vertical tangent
/// at one end: sqrt; the steepest finite slopes - Expo, Elastic, Back - stay below 20). The
/// smallest gap between any two keyframe positions (0 % and 100 % included) is used for `g`.
/// A discontinuous easing (the staircase) or `max(..) >= 1/4` gives `None`. For ordinary timelines
/// the result is a few 1e-3 - three orders of magnitude below "back at the start values".
pub fn band_tolerance(m: &MergedSpec) -> Option<f32> {
    let mut worst = 0.0f64;
    for p in &m.parts {
        if p.uses_easing(CUSTOM_STEPS) || p.uses_easing(CUSTOM_BEZIER) {
            return None;
        }
        let cycles = match p.repeat {
            Rep::None => 1.0,
            Rep::Times(n) => n as f64 + 1.0,
            Rep::Infinite => return None,
        };
        let cycle = p.duration as f64;
        let total = p.delay as f64 + cycle * cycles;
        let d = 8.0 * f32::EPSILON as f64 * (total / cycle).max(1.0) * if p.reverse { 2.0 } else { 1.0 };
        let mut positions: Vec<f64> = p.kfs.iter().map(|k| k.pos as f64).collect();
        positions.push(0.0);
        positions.push(1.0);
        positions.sort_by(|a, b| a.total_cmp(b));
        let mut gap = 1.0f64;
        for w in positions.windows(2) {
            if w[1] > w[0] {
                gap = gap.min(w[1] - w[0]);
            }
        }
        let r = d / gap;
        worst = worst.max(r.sqrt().max(20.0 * r));
    }
    if worst >= 0.25 {
        None
    } else {
        Some((2.0 * worst) as f32)
    }
}

/// `actual` equals `expected` within `tol` x (largest magnitude involved); integers likewise, at
/// least 1.
pub fn close_within_band(m: &MergedSpec, prop: usize, actual: PropVal, expected: PropVal, extra: PropVal, tol: f32) -> bool {
    match (actual, expected) {
        (PropVal::F(x), PropVal::F(y)) => {
            if x == y {
                return true;
            }
            let e = match extra {
                PropVal::F(e) => e,
                _ => 0.0,
            };
            let scale = float_scale(m, prop, e).max(x.abs()).max(y.abs()).max(f32::MIN_POSITIVE);
            ((x as f64) - (y as f64)).abs() <= tol as f64 * scale as f64
        }
        (PropVal::I(x), PropVal::I(y)) => {
            let mut scale = (x.abs()).max(y.abs()) as f64;
            if let PropVal::I(e) = extra {
                scale = scale.max((e as f64).abs());
            }
            for p in &m.parts {
                for k in &p.kfs {
                    if let Some(PropVal::I(v)) = kf_value(k, prop) {
                        scale = scale.max((v as f64).abs());
                    }
                }
            }
            ((x - y).abs() as f64) <= (tol as f64 * scale).max(1.0)
        }
        _ => false,
    }
}

pub fn set_prop(v: &mut Vals, prop: usize, x: PropVal) {
    match (prop, x) {
        (0, PropVal::F(x)) => v.a = x,
        (1, PropVal::F(x)) => v.b = x,
        (2, PropVal::I(x)) => v.n = x as i32,
        (3, PropVal::I(x)) => v.k = x as u8,
        _ => {}
    }
}

/// Largest magnitude of any float value of `prop` that can take part in an interpolation of this
/// merged timeline (keyframe values, type default, plus `extra`), used to scale float tolerances.
pub fn float_scale(m: &MergedSpec, prop: usize, extra: f32) -> f32 {
    let mut s = extra.abs();
    for p in &m.parts {
        for k in &p.kfs {
            if let Some(PropVal::F(v)) = kf_value(k, prop) {
                s = s.max(v.abs());
            }
        }
    }
    s
}

/// `actual` equals `expected` - integers exactly, floats within `ulps` x f32::EPSILON x scale
/// (scale = largest magnitude involved; absolute floor for values around zero).
pub fn prop_close(actual: PropVal, expected: PropVal, scale: f32, ulps: f32) -> bool {
    match (actual, expected) {
        (PropVal::I(x), PropVal::I(y)) => x == y,
        (PropVal::F(x), PropVal::F(y)) => {
            if x == y {
                return true;
            }
            let tol = ulps * f32::EPSILON * scale.max(x.abs()).max(y.abs()).max(f32::MIN_POSITIVE);
            (x - y).abs() <= tol
        }
        _ => false,
    }
}

#[derive(Clone, Copy, Debug, PartialEq, Eq, Hash, PartialOrd, Ord)]
pub enum Phase {
    NoTimeline,
    Empty,
    NotStarted,
    FirstFwd,
    FirstRev,
    RepeatFwd,
    RepeatRev,
    Ended,
}

/// Phase of one timeline at time `t` (seconds), from the specification.
pub fn tl_phase(tl: &TlSpec, t: f64) -> Phase {
    let delay = tl.delay as f64;
    let dur = tl.duration as f64;
    if t < delay {
        return Phase::NotStarted;
    }
    if let Some(total) = tl_total(tl) {
        if t >= total {
            return Phase::Ended;
        }
    }
    let local = t - delay;
    let cycle = (local / dur).floor();
    let within = local - cycle * dur;
    let rev = tl.reverse && within > dur * 0.5;
    match (cycle >= 1.0, rev) {
        (false, false) => Phase::FirstFwd,
        (false, true) => Phase::FirstRev,
        (true, false) => Phase::RepeatFwd,
        (true, true) => Phase::RepeatRev,
    }
}

/// Phase of a state's merged timeline: ended only when all components ended; otherwise the
/// phase of the first component that is still running (not-started only if none has started).
pub fn merged_phase(m: Option<&MergedSpec>, t: f64) -> Phase {
    let Some(m) = m else {
        return Phase::NoTimeline;
    };
    if m.parts.is_empty() {
        return Phase::Empty;
    }
    if let Some(total) = merged_total(m) {
        if t >= total {
            return Phase::Ended;
        }
    }
    let mut best = Phase::NotStarted;
    for p in &m.parts {
        let ph = tl_phase(p, t);
        if ph != Phase::NotStarted && ph != Phase::Ended {
            return ph;
        }
        if ph == Phase::Ended {
            best = Phase::FirstFwd; // something already ran; treat the whole as active
        }
    }
    best
}

/// Interesting instants (seconds since the state was entered) of a merged timeline, up to
/// `max_cycles` cycles per component: end of delay, cycle wraps, reverse peaks, keyframe
/// positions within each cycle, and the total duration.
pub fn boundaries(m: &MergedSpec, max_cycles: u32) -> Vec<f64> {
    let mut out = Vec::new();
    for p in &m.parts {
        let delay = p.delay as f64;
        let dur = p.duration as f64;
        out.push(delay);
        let cycles = match p.repeat {
            Rep::None => 1,
            Rep::Times(n) => (n as u64 + 1).min(max_cycles as u64) as u32,
            Rep::Infinite => max_cycles,
        };
        for c in 0..cycles {
            let base = delay + dur * c as f64;
            out.push(base + dur);
            if p.reverse {
                out.push(base + dur * 0.5);
            }
            for k in &p.kfs {
                let pos = k.pos as f64;
                if p.reverse {
                    out.push(base + dur * 0.5 * pos);
                    out.push(base + dur * (1.0 - 0.5 * pos));
                } else {
                    out.push(base + dur * pos);
                }
            }
        }
        if let Some(t) = tl_total(p) {
            out.push(t);
        }
    }
    out.retain(|t| t.is_finite() && *t >= 0.0);
    out.sort_by(|a, b| a.total_cmp(b));
    out.dedup();
    out
}

/// Phase boundaries only (no keyframe positions): delay end, cycle wraps, reverse peaks, end.
pub fn phase_boundaries(m: &MergedSpec, max_cycles: u32) -> Vec<f64> {
    let mut out = Vec::new();
    for p in &m.parts {
        let delay = p.delay as f64;
        let dur = p.duration as f64;
        out.push(delay);
        let cycles = match p.repeat {
            Rep::None => 1,
            Rep::Times(n) => (n as u64 + 1).min(max_cycles as u64) as u32,
            Rep::Infinite => max_cycles,
        };
        for c in 0..cycles {
            let base = delay + dur * c as f64;
            out.push(base + dur);
            if p.reverse {
                out.push(base + dur * 0.5);
            }
        }
        if let Some(t) = tl_total(p) {
            out.push(t);
        }
    }
    out.retain(|t| t.is_finite() && *t >= 0.0);
    out.sort_by(|a, b| a.total_cmp(b));
    out.dedup();
    out
}

// ---------------------------------------------------------------------------------------------
// Independent reference evaluator of a timeline specification
// ---------------------------------------------------------------------------------------------
//
// Written from the *documented* semantics (CSS-style per-property keyframe interpolation; delay,
// repeat and reverse mapping time to a position; a substituted start value that only affects the
// first forward pass), not from mina's frame lookup: it scans the sorted keyframes of one property
// linearly and computes the position directly. Only the easing curves themselves (`Easing::calc`)
// are shared with mina. It lets the simulation checks notice defects of the timeline layer that a
// purely differential oracle (real timeline vs real timeline) cancels out.

#[derive(Clone, Copy, Debug, PartialEq)]
pub struct RefPosition {
    /// normalized position in [0, 1]
    pub pos: f32,
    /// whether a substituted start value applies (not started, or first forward pass)
    pub use_start: bool,
    /// the time is so close to a phase boundary (cycle wrap, reverse peak, end) that a rounding
    /// difference may legitimately select the other side; comparisons should be skipped
    pub near_boundary: bool,
}

pub fn ref_position(tl: &TlSpec, t: f32) -> RefPosition {
    let delay = tl.delay;
    let dur = tl.duration;
    let local = t - delay;
    // proximity to a multiple of half the cycle, measured on both time scales
    let tol = 4.0 * f32::EPSILON * t.abs().max(dur) + 1e-6 * dur;
    let half = dur * 0.5;
    let k = (local / half).round();
    let near_half_multiple = k >= 1.0 && (local - k * half).abs() <= tol;
    if local < 0.0 {
        return RefPosition {
            pos: 0.0,
            use_start: true,
            near_boundary: false,
        };
    }
    let total_cycles: Option<f32> = match tl.repeat {
        Rep::None => Some(1.0),
        Rep::Times(n) => Some((n as f64 + 1.0) as f32),
        Rep::Infinite => None,
    };
    if let Some(c) = total_cycles {
        if local > dur * c {
            return RefPosition {
                pos: if tl.reverse { 0.0 } else { 1.0 },
                use_start: false,
                near_boundary: near_half_multiple,
            };
        }
    }
    let quot = local / dur;
    let rem = local % dur;
    let repeats = tl.repeat != Rep::None;
    let (cycle_time, repeating) = if !repeats {
        (local, false)
    } else if rem == 0.0 && quot >= 1.0 {
        // exact cycle multiples hold the end of the cycle that just finished
        (dur, quot > 1.0)
    } else {
        (rem, quot >= 1.0)
    };
    let ratio = cycle_time / dur;
    let (pos, reversing) = if tl.reverse {
        if ratio > 0.5 {
            ((1.0 - ratio) * 2.0, true)
        } else {
            (ratio * 2.0, false)
        }
    } else {
        (ratio, false)
    };
    RefPosition {
        pos: pos.clamp(0.0, 1.0),
        use_start: !repeating && !reversing,
        near_boundary: near_half_multiple,
    }
}

/// Frames of one property: (position, value as f32, easing id), sorted, with the implicit 0 % and
/// 100 % frames. `None` if the timeline never keyframes the property.
fn ref_frames(tl: &TlSpec, prop: usize) -> Option<Vec<(f32, f32, u8)>> {
    let mut defining: Vec<&KfSpec> = tl.kfs.iter().filter(|k| k.defines(prop)).collect();
    if defining.is_empty() {
        return None;
    }
    defining.sort_by(|x, y| x.pos.total_cmp(&y.pos));
    let value = |k: &KfSpec| -> f32 {
        match kf_value(k, prop) {
            Some(PropVal::F(v)) => v,
            Some(PropVal::I(v)) => v as f32,
            None => 0.0,
        }
    };
    let mut frames: Vec<(f32, f32, u8)> = Vec::new();
    let mut easing = tl.easing;
    if defining[0].pos > 0.0 {
        frames.push((0.0, 0.0, tl.easing)); // type default, timeline default easing
    }
    for k in defining {
        if let Some(e) = k.easing {
            easing = e;
        }
        frames.push((k.pos, value(k), easing));
    }
    let last = *frames.last().unwrap();
    if last.0 < 1.0 {
        frames.push((1.0, last.1, last.2));
    }
    Some(frames)
}

/// Value of one property of one timeline at a position; `start` substitutes the 0 % value.
fn ref_value(frames: &[(f32, f32, u8)], pos: f32, start: Option<f32>) -> f32 {
    let val = |i: usize| -> f32 {
        if i == 0 {
            start.unwrap_or(frames[0].1)
        } else {
            frames[i].1
        }
    };
    // last frame whose position is <= pos
    let mut i = 0;
    for (j, f) in frames.iter().enumerate() {
        if f.0 <= pos {
            i = j;
        }
    }
    if i + 1 >= frames.len() {
        return val(i);
    }
    let (p0, p1) = (frames[i].0, frames[i + 1].0);
    if p1 - p0 == 0.0 {
        return val(i);
    }
    let x = (pos - p0) / (p1 - p0);
    let y = easing_calc(frames[i].2, x);
    val(i) * (1.0 - y) + val(i + 1) * y
}

#[derive(Clone, Copy, Debug, PartialEq)]
pub struct RefProp {
    /// value as f32 (integer properties: before rounding)
    pub value: f32,
    /// magnitude scale of everything that took part, for tolerances
    pub scale: f32,
    pub near_boundary: bool,
}

/// Reference value of every property of a merged timeline at time `t` (later components win).
/// `None` for a property no component keyframes.
pub fn ref_eval(m: &MergedSpec, start: Option<&Vals>, t: f32) -> [Option<RefProp>; 4] {
    let mut out: [Option<RefProp>; 4] = [None; 4];
    for tl in &m.parts {
        let rp = ref_position(tl, t);
        for prop in 0..4 {
            if let Some(frames) = ref_frames(tl, prop) {
                let s = match (rp.use_start, start) {
                    (true, Some(v)) => Some(match get_prop(v, prop) {
                        PropVal::F(x) => x,
                        PropVal::I(x) => x as f32,
                    }),
                    _ => None,
                };
                let value = ref_value(&frames, rp.pos, s);
                let mut scale = s.map(f32::abs).unwrap_or(0.0);
                for f in &frames {
                    scale = scale.max(f.1.abs());
                }
                out[prop] = Some(RefProp {
                    value,
                    scale,
                    near_boundary: rp.near_boundary,
                });
            }
        }
    }
    out
}

/// Compares an observed property with the reference: floats within `rel` x scale, integers within
/// one unit of the rounded reference (rounding of a value near .5 may go either way).
pub fn ref_matches(actual: PropVal, r: &RefProp, rel: f32) -> bool {
    let tol = rel * r.scale.max(1e-3);
    match actual {
        PropVal::F(x) => x == r.value || (x - r.value).abs() <= tol,
        PropVal::I(x) => ((x as f32) - r.value).abs() <= 0.5 + tol,
    }
}
