//! simmodel: the animated struct shapes compiled into the harness, run-time *specifications* of
//! timelines / animators (plain data: generated, shrunk, stored in replay files), builders that
//! turn a specification into the real mina objects through the real builder API, and
//! configuration-derived oracles that are independent of mina's own code.

pub mod gen;
pub mod oracle;
pub mod spec;

pub use spec::*;
