//! simmodel: the animated struct shapes compiled into the harness, run-time *specifications* of
//! timelines / animators (plain data: generated, shrunk, stored in replay files), builders that
//! turn a specification into the real mina objects through the real builder API, and
//! configuration-derived oracles that are independent of mina's own code.

pub mod gen;
pub mod oracle;
pub mod spec;

pub use spec::*;

/// Executed at the start of every run of every engine: a fixed sequence of library calls (all 29
/// easings at fixed positions, one fixed timeline evaluated at fixed times). If the library kept
/// hidden state across calls (a cache, a memo, a thread-local), every run - in the worker pool or
/// alone in a fresh replay process - would then start from the *same* hidden state, so a
/// violation that depends on such state still replays exactly.
pub fn normalise_hidden_state() {
    use mina::prelude::*;
    let mut acc = 0.0f32;
    for e in 0..NUM_EASINGS {
        acc += easing_calc(e, 0.3125) + easing_calc(e, 0.75);
    }
    let tl = TimelineBuilder::build(
        Vals::timeline()
            .duration_seconds(2.0)
            .delay_seconds(0.5)
            .reverse(true)
            .repeat(Repeat::Times(1))
            .default_easing(Easing::InOutQuad)
            .keyframe(Vals::keyframe(0.0).a(1.0).n(3))
            .keyframe(Vals::keyframe(0.625).a(-2.0).k(7).easing(Easing::OutCubic))
            .keyframe(Vals::keyframe(1.0).a(4.0).n(-9)),
    );
    let mut v = Vals::default();
    for t in [0.25f32, 1.0, 2.75, 4.0, 6.0] {
        tl.update(&mut v, t);
    }
    std::hint::black_box((acc, v));
}
