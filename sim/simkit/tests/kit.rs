//! Self-tests of the property-agnostic kit: the PRNG streams are stable (a replay file or a seed
//! recorded today means the same run tomorrow), and the JSON writer/parser round-trips loss-free.

use simkit::json::{f32_from_json, f32_to_json, Json};
use simkit::rng::Rng;

#[test]
fn rng_streams_are_stable() {
    let mut r = Rng::stream(20231009, "core_sim/C05", 7);
    let got: Vec<u64> = (0..4).map(|_| r.next_u64()).collect();
    let mut again = Rng::stream(20231009, "core_sim/C05", 7);
    let got2: Vec<u64> = (0..4).map(|_| again.next_u64()).collect();
    assert_eq!(got, got2);
    // different run index / name / seed => different stream
    assert_ne!(Rng::stream(20231009, "core_sim/C05", 8).next_u64(), got[0]);
    assert_ne!(Rng::stream(20231009, "core_sim/C04", 7).next_u64(), got[0]);
    assert_ne!(Rng::stream(1, "core_sim/C05", 7).next_u64(), got[0]);
    // pinned values: changing the generator silently would invalidate recorded seeds
    let mut base = Rng::new(42);
    assert_eq!(base.next_u64(), 1546998764402558742);
    assert!(base.below(10) < 10);
}

#[test]
fn f32_is_stored_loss_free() {
    for v in [0.0f32, -0.0, 1.0 / 3.0, f32::MIN_POSITIVE, f32::MAX, 1.8446744e19, 0.1 + 0.2] {
        let j = f32_to_json(v);
        let text = Json::obj().set("x", j).to_string_pretty();
        let back = Json::parse(&text).unwrap();
        assert_eq!(f32_from_json(back.req("x").unwrap()).unwrap().to_bits(), v.to_bits());
    }
}

#[test]
fn json_round_trip() {
    let j = Json::obj()
        .set("a", 1i64)
        .set("b", Json::Arr(vec![Json::from("x\"y\n"), Json::Null, Json::Bool(true)]))
        .set("c", Json::obj().set("d", 2.5f64).set("e", Json::Arr(vec![])));
    for text in [j.to_string_compact(), j.to_string_pretty()] {
        assert_eq!(Json::parse(&text).unwrap(), j);
    }
    assert!(Json::parse("{\"a\": 1} trailing").is_err());
}
