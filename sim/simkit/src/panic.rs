//! Panic capture: run a closure under `catch_unwind` with a silent hook that records the panic
//! message and source location in a thread-local, so that a panic inside the system under test
//! becomes data (a C20 violation) instead of noise on stderr.

use std::cell::RefCell;
use std::panic::{self, AssertUnwindSafe};
use std::sync::Once;

#[derive(Clone, Debug)]
pub struct PanicInfo {
    pub message: String,
    pub file: String,
    pub line: u32,
}

impl PanicInfo {
    pub fn describe(&self) -> String {
        format!("panic at {}:{}: {}", self.file, self.line, self.message)
    }

    /// True if the panic originated in focustense/mina source or in std code reached from it
    /// (Duration arithmetic, integer overflow checks are reported at the mina call site because of
    /// `#[track_caller]`; std-internal locations start with /rustc/ or library/).
    pub fn in_system_under_test(&self) -> bool {
        self.file.starts_with("/repo/")
            || self.file.contains("/rustc/")
            || self.file.starts_with("library/")
            || self.file.contains("/.cargo/registry/")
    }
}

thread_local! {
    static LAST: RefCell<Option<PanicInfo>> = const { RefCell::new(None) };
    static CAPTURING: RefCell<bool> = const { RefCell::new(false) };
}

static INSTALL: Once = Once::new();

pub fn install_hook() {
    INSTALL.call_once(|| {
        let previous = panic::take_hook();
        panic::set_hook(Box::new(move |info| {
            let capturing = CAPTURING.with(|c| *c.borrow());
            if !capturing {
                previous(info);
                return;
            }
            let message = if let Some(s) = info.payload().downcast_ref::<&str>() {
                (*s).to_string()
            } else if let Some(s) = info.payload().downcast_ref::<String>() {
                s.clone()
            } else {
                "<non-string panic payload>".to_string()
            };
            let (file, line) = info
                .location()
                .map(|l| (l.file().to_string(), l.line()))
                .unwrap_or_else(|| ("<unknown>".to_string(), 0));
            LAST.with(|l| {
                *l.borrow_mut() = Some(PanicInfo {
                    message,
                    file,
                    line,
                })
            });
        }));
    });
}

/// Runs `f`, returning `Err(PanicInfo)` if it panicked.
pub fn catch<T>(f: impl FnOnce() -> T) -> Result<T, PanicInfo> {
    install_hook();
    let was = CAPTURING.with(|c| std::mem::replace(&mut *c.borrow_mut(), true));
    LAST.with(|l| *l.borrow_mut() = None);
    let result = panic::catch_unwind(AssertUnwindSafe(f));
    CAPTURING.with(|c| *c.borrow_mut() = was);
    match result {
        Ok(v) => Ok(v),
        Err(_) => Err(LAST.with(|l| l.borrow_mut().take()).unwrap_or(PanicInfo {
            message: "<panic without hook info>".into(),
            file: "<unknown>".into(),
            line: 0,
        })),
    }
}
