//! Generic batch driver shared by all simulation engines: seeded run generation, parallel
//! execution with order-independent aggregation, shrinking, replay verification in a fresh
//! process, known-findings matching, determinism self-check and evidence output.

use crate::json::Json;
use crate::rng::{fnv1a, Rng};
use std::collections::{BTreeMap, BTreeSet};
use std::path::{Path, PathBuf};
use std::sync::atomic::{AtomicU64, Ordering};
use std::sync::Mutex;
use std::time::Instant;

pub const DEFAULT_SEED: u64 = 20_231_009;

#[derive(Clone, Copy, Debug, PartialEq, Eq)]
pub enum Tier {
    Quick,
    Thorough,
}

impl Tier {
    pub fn name(&self) -> &'static str {
        match self {
            Tier::Quick => "quick",
            Tier::Thorough => "thorough",
        }
    }
}

#[derive(Clone, Debug)]
pub struct Violation {
    pub property: String,
    /// Which clause of the property's oracle failed. Shrinking preserves (property, clause).
    pub clause: String,
    /// Index of the operation / frame after which the monitor fired.
    pub step: usize,
    /// Human readable expected-vs-actual.
    pub detail: String,
    /// Structural signature used by the known-findings matcher.
    pub signature: String,
}

impl Violation {
    pub fn to_json(&self) -> Json {
        Json::obj()
            .set("property", self.property.as_str())
            .set("clause", self.clause.as_str())
            .set("step", self.step)
            .set("detail", self.detail.as_str())
            .set("signature", self.signature.as_str())
    }

    pub fn from_json(j: &Json) -> Result<Violation, String> {
        Ok(Violation {
            property: j.req("property")?.as_str()?.to_string(),
            clause: j.req("clause")?.as_str()?.to_string(),
            step: j.req("step")?.as_i64()? as usize,
            detail: j.req("detail")?.as_str()?.to_string(),
            signature: j.req("signature")?.as_str()?.to_string(),
        })
    }
}

/// Result of executing one scenario for one property.
#[derive(Clone, Debug, Default)]
pub struct RunOutcome {
    pub violation: Option<Violation>,
    /// Named counters: fault kinds fired, reach probes, phases reached ... (summed over runs).
    pub counters: BTreeMap<String, u64>,
    /// Hashes of distinct non-trivial cases (engine/property specific rule).
    pub distinct: BTreeSet<u64>,
    /// Hashes of abstract (state, op) transitions reached (coverage measure).
    pub abstract_transitions: BTreeSet<u64>,
    /// Number of oracle evaluations performed.
    pub evaluations: u64,
    /// Hash over every observed value of the run (bit patterns); equal hash <=> equal log.
    pub obs_hash: u64,
    /// Simulated seconds covered (ordinary) and by astronomical jumps (reported separately).
    pub sim_seconds: f64,
    pub astro_seconds: f64,
    /// Number of operations / frames executed.
    pub steps: u64,
    /// True if the property's trigger occurred at least once in this run.
    pub triggered: bool,
    /// A harness-level problem (generator produced an unsupported input ...): exit code 2.
    pub harness_error: Option<String>,
}

impl RunOutcome {
    pub fn count(&mut self, name: &str) {
        *self.counters.entry(name.to_string()).or_insert(0) += 1;
    }
    pub fn count_n(&mut self, name: &str, n: u64) {
        *self.counters.entry(name.to_string()).or_insert(0) += n;
    }
}

pub trait Engine: Sync {
    type Scn: Clone + Send + Sync;

    fn name(&self) -> &'static str;
    /// Properties this engine can decide.
    fn properties(&self) -> &'static [&'static str];
    /// Generates the scenario of run `run` from its own PRNG stream.
    fn generate(&self, rng: &mut Rng, property: &str, tier: Tier) -> Self::Scn;
    /// Executes the scenario against the real code with the property's monitors.
    fn execute(&self, scn: &Self::Scn, property: &str) -> RunOutcome;
    /// Simpler variants of `scn`, most aggressive first.
    fn shrink_candidates(&self, scn: &Self::Scn) -> Vec<Self::Scn>;
    fn size(&self, scn: &Self::Scn) -> usize;
    fn to_json(&self, scn: &Self::Scn) -> Json;
    fn from_json(&self, j: &Json) -> Result<Self::Scn, String>;
    /// Components that ran real code / were simulated, for the evidence file.
    fn components_real(&self) -> Vec<&'static str>;
    fn components_simulated(&self) -> Vec<&'static str>;
    /// Rule text for `distinct_nontrivial` of a property.
    fn rule(&self, property: &str) -> String;
    /// Extra assumptions for the evidence file.
    fn assumptions(&self, _property: &str) -> Vec<String> {
        Vec::new()
    }
    /// Default number of runs per tier.
    fn default_runs(&self, property: &str, tier: Tier) -> u64;
    /// Extra key/value pairs for the evidence file's coverage object (engine specific facts).
    fn extra_evidence(&self, _property: &str) -> Vec<(String, Json)> {
        Vec::new()
    }
    /// Total number of abstract transitions considered possible (0 = unknown), for reporting.
    fn abstract_transitions_possible(&self, _property: &str) -> u64 {
        0
    }
}

#[derive(Clone, Debug)]
pub struct Options {
    pub property: String,
    pub tier: Tier,
    pub seed: u64,
    pub runs: u64,
    pub workers: usize,
    pub verif_dir: PathBuf,
    /// Skip the fresh-process steps (used by child invocations).
    pub no_children: bool,
    /// Number of runs re-executed in a fresh process for the determinism self-check.
    pub determinism_sample: u64,
    /// Extra label recorded in the evidence (e.g. build profile).
    pub profile: String,
    /// Where to write a per-run observation log (run index, obs hash), for cross-profile diffs.
    pub obs_log: Option<PathBuf>,
    /// If false, the evidence file is not written (used by sub-invocations).
    pub write_evidence: bool,
    /// Extra JSON merged into coverage (set by wrapper passes).
    pub extra_coverage: Vec<(String, Json)>,
    /// File stem of the evidence file (default: the property id). Multi-engine checks write parts.
    pub evidence_name: Option<String>,
}

pub fn env_seed() -> u64 {
    match std::env::var("VERIF_SEED") {
        Ok(s) => {
            let s = s.trim();
            if let Ok(v) = s.parse::<u64>() {
                v
            } else if let Ok(v) = s.parse::<i64>() {
                v as u64
            } else {
                fnv1a(s.as_bytes())
            }
        }
        Err(_) => DEFAULT_SEED,
    }
}

pub fn verif_dir() -> PathBuf {
    std::env::var("VERIF_DIR")
        .map(PathBuf::from)
        .unwrap_or_else(|_| PathBuf::from("/verif"))
}

#[derive(Default)]
struct Aggregate {
    counters: BTreeMap<String, u64>,
    distinct: BTreeSet<u64>,
    abstract_transitions: BTreeSet<u64>,
    evaluations: u64,
    obs_mix: u64,
    sim_seconds: f64,
    astro_seconds: f64,
    steps: u64,
    runs: u64,
    triggered_runs: u64,
    violations: Vec<(u64, Violation)>,
    harness_errors: Vec<(u64, String)>,
    obs: Vec<(u64, u64)>,
}

impl Aggregate {
    fn add(&mut self, idx: u64, o: RunOutcome, keep_obs: bool) {
        for (k, v) in o.counters {
            *self.counters.entry(k).or_insert(0) += v;
        }
        self.distinct.extend(o.distinct);
        self.abstract_transitions.extend(o.abstract_transitions);
        self.evaluations += o.evaluations;
        self.obs_mix = self
            .obs_mix
            .wrapping_add(mix(idx, o.obs_hash));
        self.sim_seconds += o.sim_seconds;
        self.astro_seconds += o.astro_seconds;
        self.steps += o.steps;
        self.runs += 1;
        if o.triggered {
            self.triggered_runs += 1;
        }
        if let Some(v) = o.violation {
            self.violations.push((idx, v));
        }
        if let Some(e) = o.harness_error {
            self.harness_errors.push((idx, e));
        }
        if keep_obs {
            self.obs.push((idx, o.obs_hash));
        }
    }

    fn merge(&mut self, other: Aggregate) {
        for (k, v) in other.counters {
            *self.counters.entry(k).or_insert(0) += v;
        }
        self.distinct.extend(other.distinct);
        self.abstract_transitions.extend(other.abstract_transitions);
        self.evaluations += other.evaluations;
        self.obs_mix = self.obs_mix.wrapping_add(other.obs_mix);
        self.sim_seconds += other.sim_seconds;
        self.astro_seconds += other.astro_seconds;
        self.steps += other.steps;
        self.runs += other.runs;
        self.triggered_runs += other.triggered_runs;
        self.violations.extend(other.violations);
        self.harness_errors.extend(other.harness_errors);
        self.obs.extend(other.obs);
    }
}

fn mix(idx: u64, h: u64) -> u64 {
    let mut s = idx ^ h.rotate_left(21);
    crate::rng::splitmix64(&mut s)
}

/// Known-findings file: lines `finding: property=<id> clause=<clause> sig=<substring> -- text`
/// and `fixed: property=<id> <commit> <text>` (fixed lines suppress nothing).
#[derive(Clone, Debug)]
pub struct KnownFinding {
    pub property: String,
    pub clause: String,
    pub sig: String,
    pub text: String,
}

pub fn load_known_findings(path: &Path) -> Vec<KnownFinding> {
    let Ok(text) = std::fs::read_to_string(path) else {
        return Vec::new();
    };
    let mut out = Vec::new();
    for line in text.lines() {
        let line = line.trim();
        let Some(rest) = line.strip_prefix("finding:") else {
            continue;
        };
        let (head, text) = match rest.split_once(" -- ") {
            Some((h, t)) => (h, t.trim().to_string()),
            None => (rest, String::new()),
        };
        let mut kf = KnownFinding {
            property: String::new(),
            clause: String::new(),
            sig: String::new(),
            text,
        };
        for tok in head.split_whitespace() {
            if let Some(v) = tok.strip_prefix("property=") {
                kf.property = v.to_string();
            } else if let Some(v) = tok.strip_prefix("clause=") {
                kf.clause = v.to_string();
            } else if let Some(v) = tok.strip_prefix("sig=") {
                kf.sig = v.to_string();
            }
        }
        if !kf.property.is_empty() {
            out.push(kf);
        }
    }
    out
}

pub fn match_known<'a>(known: &'a [KnownFinding], v: &Violation) -> Option<&'a KnownFinding> {
    known.iter().find(|k| {
        k.property == v.property
            && (k.clause.is_empty() || k.clause == v.clause)
            && (k.sig.is_empty() || v.signature.contains(&k.sig))
    })
}

/// Executes run `idx` of the batch.
pub fn run_one<E: Engine>(engine: &E, opts: &Options, idx: u64) -> (E::Scn, RunOutcome) {
    let stream = format!("{}/{}", engine.name(), opts.property);
    let mut rng = Rng::stream(opts.seed, &stream, idx);
    let scn = engine.generate(&mut rng, &opts.property, opts.tier);
    let outcome = engine.execute(&scn, &opts.property);
    (scn, outcome)
}

fn same_class(a: &Violation, b: &Violation) -> bool {
    a.property == b.property && a.clause == b.clause
}

/// Greedy minimisation preserving the violation class (property, clause).
pub fn shrink<E: Engine>(
    engine: &E,
    scn: E::Scn,
    violation: Violation,
    budget: usize,
) -> (E::Scn, Violation, usize) {
    let mut current = scn;
    let mut current_v = violation;
    let mut executions = 0usize;
    'outer: loop {
        let candidates = engine.shrink_candidates(&current);
        for cand in candidates {
            if executions >= budget {
                break 'outer;
            }
            executions += 1;
            let out = engine.execute(&cand, &current_v.property);
            if let Some(v) = out.violation {
                if same_class(&v, &current_v) && engine.size(&cand) <= engine.size(&current) {
                    current = cand;
                    current_v = v;
                    continue 'outer;
                }
            }
        }
        break;
    }
    (current, current_v, executions)
}

pub fn replay_file_json<E: Engine>(
    engine: &E,
    scn: &E::Scn,
    v: &Violation,
    opts: &Options,
    run: u64,
    original_size: usize,
    shrink_execs: usize,
) -> Json {
    Json::obj()
        .set("format", "mina-verif-replay-1")
        .set("engine", engine.name())
        .set("property", v.property.as_str())
        .set("seed", opts.seed)
        .set("run", run)
        .set("tier", opts.tier.name())
        .set("profile", opts.profile.as_str())
        .set("violation", v.to_json())
        .set("original_size", original_size)
        .set("minimised_size", engine.size(scn))
        .set("shrink_executions", shrink_execs)
        .set("scenario", engine.to_json(scn))
}

pub enum ReplayResult {
    Reproduced(Violation),
    Different(Violation),
    NoViolation,
}

pub fn replay_in_process<E: Engine>(engine: &E, path: &Path) -> Result<(Violation, ReplayResult), String> {
    let text = std::fs::read_to_string(path).map_err(|e| format!("{}: {e}", path.display()))?;
    let j = Json::parse(&text)?;
    let eng = j.req("engine")?.as_str()?;
    if eng != engine.name() {
        return Err(format!(
            "replay file is for engine '{eng}', this binary is '{}'",
            engine.name()
        ));
    }
    let expected = Violation::from_json(j.req("violation")?)?;
    let scn = engine.from_json(j.req("scenario")?)?;
    let out = engine.execute(&scn, &expected.property);
    let res = match out.violation {
        Some(v) if same_class(&v, &expected) && v.step == expected.step => ReplayResult::Reproduced(v),
        Some(v) => ReplayResult::Different(v),
        None => ReplayResult::NoViolation,
    };
    Ok((expected, res))
}

/// `replay <file>` sub-command. Exit 1 when the recorded violation reproduces exactly, 0 when the
/// file no longer fails, 2 on any mismatch or error.
pub fn cmd_replay<E: Engine>(engine: &E, path: &Path) -> i32 {
    match replay_in_process(engine, path) {
        Ok((_, ReplayResult::Reproduced(v))) => {
            println!(
                "REPRODUCED property={} clause={} step={} :: {}",
                v.property, v.clause, v.step, v.detail
            );
            1
        }
        Ok((exp, ReplayResult::Different(v))) => {
            println!(
                "DIFFERENT expected clause={} step={} got property={} clause={} step={} :: {}",
                exp.clause, exp.step, v.property, v.clause, v.step, v.detail
            );
            2
        }
        Ok((exp, ReplayResult::NoViolation)) => {
            println!(
                "NOT-REPRODUCED property={} clause={} (the scenario passes on this tree)",
                exp.property, exp.clause
            );
            0
        }
        Err(e) => {
            eprintln!("replay error: {e}");
            2
        }
    }
}

/// `obs` sub-command: prints `idx hash` for the given run indices (fresh-process determinism check).
pub fn cmd_obs<E: Engine>(engine: &E, opts: &Options, indices: &[u64]) -> i32 {
    for idx in indices {
        let (_, out) = run_one(engine, opts, *idx);
        println!("{idx} {:016x}", out.obs_hash);
    }
    0
}

fn run_batch<E: Engine>(engine: &E, opts: &Options, from: u64, to: u64, keep_obs: bool) -> Aggregate {
    let next = AtomicU64::new(from);
    let total = Mutex::new(Aggregate::default());
    let workers = opts.workers.max(1);
    std::thread::scope(|scope| {
        for _ in 0..workers {
            scope.spawn(|| {
                let mut local = Aggregate::default();
                loop {
                    let start = next.fetch_add(16, Ordering::Relaxed);
                    if start >= to {
                        break;
                    }
                    for idx in start..(start + 16).min(to) {
                        let (_, out) = run_one(engine, opts, idx);
                        local.add(idx, out, keep_obs);
                    }
                }
                total.lock().unwrap().merge(local);
            });
        }
    });
    total.into_inner().unwrap()
}

pub struct CheckResult {
    pub exit_code: i32,
}

/// The main `check` sub-command.
pub fn cmd_check<E: Engine>(engine: &E, opts: &Options) -> i32 {
    let started = Instant::now();
    let known_path = std::env::var("VERIF_KNOWN_FINDINGS")
        .map(PathBuf::from)
        .unwrap_or_else(|_| opts.verif_dir.join("known_findings.txt"));
    let known = load_known_findings(&known_path);
    println!(
        "seed={} engine={} property={} tier={} runs={} workers={} profile={}",
        opts.seed,
        engine.name(),
        opts.property,
        opts.tier.name(),
        opts.runs,
        opts.workers,
        opts.profile
    );

    let mut agg = Aggregate::default();
    let keep_obs = opts.obs_log.is_some() || opts.determinism_sample > 0;
    let round = 8192u64;
    let mut from = 0u64;
    let mut fatal: Option<(u64, Violation)> = None;
    let mut known_hits: BTreeMap<String, (u64, KnownFinding)> = BTreeMap::new();
    while from < opts.runs {
        let to = (from + round).min(opts.runs);
        let part = run_batch(engine, opts, from, to, keep_obs);
        agg.merge(part);
        agg.violations.sort_by_key(|(i, _)| *i);
        // Separate known findings from new violations, in run-index order.
        let mut rest = Vec::new();
        for (idx, v) in std::mem::take(&mut agg.violations) {
            if let Some(k) = match_known(&known, &v) {
                let key = format!("{} {} {}", k.property, k.clause, k.sig);
                let e = known_hits.entry(key).or_insert((0, k.clone()));
                e.0 += 1;
            } else {
                rest.push((idx, v));
            }
        }
        if let Some(first) = rest.into_iter().next() {
            fatal = Some(first);
            break;
        }
        if !agg.harness_errors.is_empty() {
            break;
        }
        from = to;
    }

    if let Some((idx, e)) = agg.harness_errors.first() {
        eprintln!("HARNESS-ERROR engine={} run={} :: {}", engine.name(), idx, e);
        return 2;
    }

    let mut exit_code = 0;
    let mut violation_count = 0i64;
    let mut violation_json = Json::Null;
    if let Some((idx, v)) = fatal {
        violation_count = 1;
        // Re-generate the scenario of that run, shrink, write the replay file, verify it in a
        // fresh process.
        let (scn, out) = run_one(engine, opts, idx);
        let original_size = engine.size(&scn);
        let v0 = out.violation.unwrap_or(v);
        let budget = if opts.tier == Tier::Quick { 3000 } else { 12000 };
        let (min_scn, min_v, execs) = shrink(engine, scn, v0, budget);
        let replay_dir = opts.verif_dir.join("replays");
        let _ = std::fs::create_dir_all(&replay_dir);
        let path = replay_dir.join(format!("{}-{}-{}.json", opts.property, opts.seed, idx));
        let j = replay_file_json(engine, &min_scn, &min_v, opts, idx, original_size, execs);
        if let Err(e) = std::fs::write(&path, j.to_string_pretty()) {
            eprintln!("cannot write replay file {}: {e}", path.display());
            return 2;
        }
        println!(
            "violation in run {idx}: clause={} step={} :: {}",
            min_v.clause, min_v.step, min_v.detail
        );
        println!(
            "minimised {} -> {} (size units) in {} executions",
            original_size,
            engine.size(&min_scn),
            execs
        );
        let reproduced = if opts.no_children {
            matches!(
                replay_in_process(engine, &path),
                Ok((_, ReplayResult::Reproduced(_)))
            )
        } else {
            replay_in_child(&path)
        };
        if !reproduced {
            eprintln!(
                "HARNESS-ERROR: replay of {} did not reproduce the violation in a fresh process",
                path.display()
            );
            return 2;
        }
        println!("VIOLATION property={} replay={}", opts.property, path.display());
        violation_json = min_v.to_json().set("replay", path.display().to_string());
        exit_code = 1;
    }
    for (count, k) in known_hits.values() {
        println!(
            "KNOWN-FINDING: property={} clause={} sig={} ({} runs) {}",
            k.property, k.clause, k.sig, count, k.text
        );
    }

    // Determinism self-check: re-execute a sample of runs alone in a fresh process and compare
    // observation hashes with the ones computed in the worker pool.
    let mut det = Json::Null;
    if exit_code == 0 && opts.determinism_sample > 0 && !opts.no_children {
        agg.obs.sort();
        let n = agg.obs.len() as u64;
        let k = opts.determinism_sample.min(n);
        let mut pick = Rng::stream(opts.seed, "determinism-sample", 0);
        let mut chosen: BTreeSet<u64> = BTreeSet::new();
        while (chosen.len() as u64) < k {
            chosen.insert(pick.below(n));
        }
        let indices: Vec<u64> = chosen.iter().map(|i| agg.obs[*i as usize].0).collect();
        match obs_in_child(opts, &indices) {
            Ok(child) => {
                let mut mismatches = 0;
                for (idx, h) in &child {
                    let pool_h = agg.obs.iter().find(|(i, _)| i == idx).map(|(_, h)| *h);
                    if pool_h != Some(*h) {
                        mismatches += 1;
                        eprintln!("determinism mismatch: run {idx} pool={pool_h:?} child={h:016x}");
                    }
                }
                if mismatches > 0 || child.len() != indices.len() {
                    eprintln!("HARNESS-ERROR: determinism self-check failed");
                    return 2;
                }
                det = Json::obj()
                    .set("runs_reexecuted_in_fresh_single_threaded_process", indices.len())
                    .set("mismatches", 0);
            }
            Err(e) => {
                eprintln!("HARNESS-ERROR: determinism child failed: {e}");
                return 2;
            }
        }
    }

    if let Some(path) = &opts.obs_log {
        agg.obs.sort();
        let mut text = String::new();
        for (idx, h) in &agg.obs {
            text.push_str(&format!("{idx} {h:016x}\n"));
        }
        if let Err(e) = std::fs::write(path, text) {
            eprintln!("cannot write obs log: {e}");
            return 2;
        }
    }

    let wall = started.elapsed().as_secs_f64();
    if opts.write_evidence {
        // Samples: first three run indices, regenerated (cheap) so they are actual cases of this run.
        let mut samples = Vec::new();
        for idx in 0..3u64.min(opts.runs) {
            let stream = format!("{}/{}", engine.name(), opts.property);
            let mut rng = Rng::stream(opts.seed, &stream, idx);
            let scn = engine.generate(&mut rng, &opts.property, opts.tier);
            samples.push(Json::obj().set("run", idx).set("scenario", engine.to_json(&scn)));
        }
        let runs_per_hour = if wall > 0.0 {
            (agg.runs as f64 / wall * 3600.0).round()
        } else {
            0.0
        };
        let mut counters = Json::obj();
        for (k, v) in &agg.counters {
            counters.put(k, *v);
        }
        let mut coverage = Json::obj()
            .set("evaluations", agg.evaluations.max(agg.runs))
            .set("distinct_nontrivial", agg.distinct.len())
            .set("rule", engine.rule(&opts.property))
            .set("samples", samples)
            .set("runs", agg.runs)
            .set("runs_in_which_trigger_occurred", agg.triggered_runs)
            .set("operations_executed", agg.steps)
            .set("runs_per_hour", runs_per_hour)
            .set("seeds_per_hour", runs_per_hour)
            .set("simulated_seconds", agg.sim_seconds)
            .set("simulated_seconds_astronomical_jumps", agg.astro_seconds)
            .set("abstract_transitions_reached", agg.abstract_transitions.len())
            .set(
                "abstract_transitions_possible",
                engine.abstract_transitions_possible(&opts.property),
            )
            .set("counters_faults_and_probes", counters)
            .set("observation_log_hash", format!("{:016x}", agg.obs_mix))
            .set("determinism_self_check", det)
            .set("workers", opts.workers)
            .set("build_profile", opts.profile.as_str())
            .set(
                "components_real",
                Json::Arr(engine.components_real().into_iter().map(Json::from).collect()),
            )
            .set(
                "components_simulated",
                Json::Arr(
                    engine
                        .components_simulated()
                        .into_iter()
                        .map(Json::from)
                        .collect(),
                ),
            )
            .set("violation", violation_json)
            .set(
                "known_findings_hit",
                Json::Arr(
                    known_hits
                        .values()
                        .map(|(c, k)| {
                            Json::obj()
                                .set("clause", k.clause.as_str())
                                .set("sig", k.sig.as_str())
                                .set("runs", *c)
                        })
                        .collect(),
                ),
            );
        for (k, v) in &opts.extra_coverage {
            coverage.put(k, v.clone());
        }
        for (k, v) in engine.extra_evidence(&opts.property) {
            coverage.put(&k, v);
        }
        let mut assumptions: Vec<Json> = vec![
            Json::from("seeded search: a clean batch is evidence, not proof"),
            Json::from("single-threaded semantics: mina has no threads, unsafe or interior mutability"),
        ];
        for a in engine.assumptions(&opts.property) {
            assumptions.push(Json::from(a));
        }
        let ev = Json::obj()
            .set("property_id", opts.property.as_str())
            .set("tier", opts.tier.name())
            .set("seed", (opts.seed & (i64::MAX as u64)) as i64)
            .set("level", "exploration")
            .set("coverage", coverage)
            .set("assumptions", assumptions)
            .set("wall_s", (wall * 1000.0).round() / 1000.0)
            .set("violations", violation_count);
        let dir = opts.verif_dir.join("evidence");
        let _ = std::fs::create_dir_all(&dir);
        let stem = opts.evidence_name.clone().unwrap_or_else(|| opts.property.clone());
        let path = dir.join(format!("{stem}.json"));
        if let Err(e) = std::fs::write(&path, ev.to_string_pretty()) {
            eprintln!("cannot write evidence {}: {e}", path.display());
            return 2;
        }
    }
    println!(
        "done: runs={} evaluations={} distinct_nontrivial={} triggered_runs={} wall={:.2}s exit={}",
        agg.runs,
        agg.evaluations,
        agg.distinct.len(),
        agg.triggered_runs,
        wall,
        exit_code
    );
    exit_code
}

fn replay_in_child(path: &Path) -> bool {
    let Ok(exe) = std::env::current_exe() else {
        return false;
    };
    match std::process::Command::new(exe).arg("replay").arg(path).output() {
        Ok(out) => out.status.code() == Some(1),
        Err(_) => false,
    }
}

fn obs_in_child(opts: &Options, indices: &[u64]) -> Result<Vec<(u64, u64)>, String> {
    let exe = std::env::current_exe().map_err(|e| e.to_string())?;
    let list = indices
        .iter()
        .map(|i| i.to_string())
        .collect::<Vec<_>>()
        .join(",");
    let out = std::process::Command::new(exe)
        .arg("obs")
        .arg("--property")
        .arg(&opts.property)
        .arg("--tier")
        .arg(opts.tier.name())
        .arg("--seed")
        .arg(opts.seed.to_string())
        .arg("--indices")
        .arg(list)
        .output()
        .map_err(|e| e.to_string())?;
    if !out.status.success() {
        return Err(format!("child exit {:?}", out.status.code()));
    }
    let text = String::from_utf8_lossy(&out.stdout);
    let mut res = Vec::new();
    for line in text.lines() {
        let mut it = line.split_whitespace();
        if let (Some(a), Some(b)) = (it.next(), it.next()) {
            let idx = a.parse::<u64>().map_err(|e| e.to_string())?;
            let h = u64::from_str_radix(b, 16).map_err(|e| e.to_string())?;
            res.push((idx, h));
        }
    }
    Ok(res)
}

/// Shared command-line front end: `check`, `replay`, `obs`.
pub fn main_cli<E: Engine>(engine: &E) -> i32 {
    let args: Vec<String> = std::env::args().skip(1).collect();
    if args.is_empty() {
        eprintln!("usage: {} check|replay|obs ...", engine.name());
        return 2;
    }
    let mut opts = Options {
        property: String::new(),
        tier: Tier::Quick,
        seed: env_seed(),
        runs: 0,
        workers: std::thread::available_parallelism()
            .map(|n| n.get())
            .unwrap_or(4)
            .min(16),
        verif_dir: verif_dir(),
        no_children: false,
        determinism_sample: 0,
        profile: if cfg!(debug_assertions) {
            "dev".into()
        } else {
            "release".into()
        },
        obs_log: None,
        write_evidence: true,
        extra_coverage: Vec::new(),
        evidence_name: None,
    };
    if let Ok(t) = std::env::var("VERIF_TIER") {
        if t == "thorough" {
            opts.tier = Tier::Thorough;
        }
    }
    let mut indices: Vec<u64> = Vec::new();
    let mut positional: Vec<String> = Vec::new();
    let mut i = 1;
    while i < args.len() {
        let a = &args[i];
        let mut val = || {
            i += 1;
            args.get(i).cloned().unwrap_or_default()
        };
        match a.as_str() {
            "--property" => opts.property = val(),
            "--tier" => {
                opts.tier = if val() == "thorough" {
                    Tier::Thorough
                } else {
                    Tier::Quick
                }
            }
            "--seed" => opts.seed = val().parse().unwrap_or(DEFAULT_SEED),
            "--runs" => opts.runs = val().parse().unwrap_or(0),
            "--workers" => opts.workers = val().parse().unwrap_or(1),
            "--determinism-sample" => opts.determinism_sample = val().parse().unwrap_or(0),
            "--obs-log" => opts.obs_log = Some(PathBuf::from(val())),
            "--no-evidence" => opts.write_evidence = false,
            "--evidence-name" => opts.evidence_name = Some(val()),
            "--no-children" => opts.no_children = true,
            "--extra" => {
                // --extra key=<json>
                let kv = val();
                if let Some((k, v)) = kv.split_once('=') {
                    let j = Json::parse(v).unwrap_or(Json::Str(v.to_string()));
                    opts.extra_coverage.push((k.to_string(), j));
                }
            }
            "--indices" => {
                indices = val()
                    .split(',')
                    .filter(|s| !s.is_empty())
                    .filter_map(|s| s.parse().ok())
                    .collect()
            }
            other => positional.push(other.to_string()),
        }
        i += 1;
    }
    match args[0].as_str() {
        "check" => {
            if !engine.properties().contains(&opts.property.as_str()) {
                eprintln!(
                    "engine {} does not decide property '{}'",
                    engine.name(),
                    opts.property
                );
                return 2;
            }
            if opts.runs == 0 {
                opts.runs = engine.default_runs(&opts.property, opts.tier);
            }
            cmd_check(engine, &opts)
        }
        "replay" => match positional.first() {
            Some(p) => cmd_replay(engine, Path::new(p)),
            None => {
                eprintln!("usage: replay <file>");
                2
            }
        },
        "obs" => cmd_obs(engine, &opts, &indices),
        "export" => {
            // export --property P --indices i <out-file> : scenario of run i as a replay file whose
            // recorded violation is a cross-profile divergence (decided by `check replay`).
            let Some(out_path) = positional.first() else {
                eprintln!("usage: export --property P --indices i <out-file>");
                return 2;
            };
            let Some(idx) = indices.first() else { return 2 };
            let (scn, _) = run_one(engine, &opts, *idx);
            let v = Violation {
                property: opts.property.clone(),
                clause: "profile-divergence".into(),
                step: 0,
                detail: "debug and release builds of the harness observe different results for this scenario".into(),
                signature: "profile-divergence".into(),
            };
            let j = replay_file_json(engine, &scn, &v, &opts, *idx, engine.size(&scn), 0)
                .set("profile", "both");
            match std::fs::write(out_path, j.to_string_pretty()) {
                Ok(_) => 0,
                Err(e) => {
                    eprintln!("cannot write {out_path}: {e}");
                    2
                }
            }
        }
        "obs-file" => {
            // obs-file <replay-file> : prints the observation hash of the scenario in the file
            let Some(p) = positional.first() else { return 2 };
            let text = match std::fs::read_to_string(p) {
                Ok(t) => t,
                Err(e) => {
                    eprintln!("{p}: {e}");
                    return 2;
                }
            };
            let parsed = Json::parse(&text).and_then(|j| {
                let prop = j.req("property")?.as_str()?.to_string();
                let scn = engine.from_json(j.req("scenario")?)?;
                Ok((prop, scn))
            });
            match parsed {
                Ok((prop, scn)) => {
                    let out = engine.execute(&scn, &prop);
                    println!(
                        "{:016x} violation={}",
                        out.obs_hash,
                        out.violation.map(|v| v.clause).unwrap_or_else(|| "none".into())
                    );
                    0
                }
                Err(e) => {
                    eprintln!("obs-file error: {e}");
                    2
                }
            }
        }
        "minimize" => {
            // minimize --property P --indices i [out-file]: shrink the violation of run i and write it
            let Some(idx) = indices.first() else { return 2 };
            let (scn, out) = run_one(engine, &opts, *idx);
            let Some(v0) = out.violation else {
                println!("run {idx} has no violation");
                return 0;
            };
            let original = engine.size(&scn);
            let (min_scn, min_v, execs) = shrink(engine, scn, v0, 12000);
            let path = positional.first().cloned().unwrap_or_else(|| {
                opts.verif_dir
                    .join("replays")
                    .join(format!("{}-{}-{}.json", opts.property, opts.seed, idx))
                    .display()
                    .to_string()
            });
            let j = replay_file_json(engine, &min_scn, &min_v, &opts, *idx, original, execs);
            if let Err(e) = std::fs::write(&path, j.to_string_pretty()) {
                eprintln!("cannot write {path}: {e}");
                return 2;
            }
            println!("clause={} step={} :: {}", min_v.clause, min_v.step, min_v.detail);
            println!("minimised {} -> {} ; replay={}", original, engine.size(&min_scn), path);
            1
        }
        "survey" => {
            // survey --property P --runs N : histogram of violation clauses over N runs (triage aid)
            let n = if opts.runs == 0 { 2000 } else { opts.runs };
            let mut hist: BTreeMap<String, (u64, u64)> = BTreeMap::new();
            let mut errors = 0u64;
            for idx in 0..n {
                let (_, out) = run_one(engine, &opts, idx);
                if let Some(v) = out.violation {
                    let e = hist.entry(v.clause).or_insert((0, idx));
                    e.0 += 1;
                }
                if out.harness_error.is_some() {
                    errors += 1;
                }
            }
            for (clause, (count, first)) in &hist {
                println!("{count:>8}  first_run={first:<6} {clause}");
            }
            println!("runs={n} harness_errors={errors}");
            0
        }
        "dump" => {
            for idx in &indices {
                let (scn, out) = run_one(engine, &opts, *idx);
                println!("{}", engine.to_json(&scn).to_string_pretty());
                println!("violation: {:?}", out.violation);
                println!("harness_error: {:?}", out.harness_error);
            }
            0
        }
        other => {
            eprintln!("unknown sub-command {other}");
            2
        }
    }
}
