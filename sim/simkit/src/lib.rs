//! simkit: the property-agnostic part of the deterministic simulator (no dependency on mina).
pub mod driver;
pub mod json;
pub mod panic;
pub mod rng;

/// Incremental FNV-style hasher for observation logs (bit patterns of everything observed).
#[derive(Clone, Copy, Debug)]
pub struct ObsHash(pub u64);

impl Default for ObsHash {
    fn default() -> Self {
        ObsHash(0xcbf2_9ce4_8422_2325)
    }
}

impl ObsHash {
    pub fn u64(&mut self, v: u64) {
        let mut h = self.0;
        for b in v.to_le_bytes() {
            h ^= b as u64;
            h = h.wrapping_mul(0x0000_0100_0000_01B3);
        }
        self.0 = h;
    }
    pub fn u32(&mut self, v: u32) {
        self.u64(v as u64 | 0x5a00_0000_0000_0000);
    }
    pub fn f32(&mut self, v: f32) {
        self.u32(v.to_bits());
    }
    pub fn bool(&mut self, v: bool) {
        self.u64(if v { 0xb1 } else { 0xb0 });
    }
    pub fn str(&mut self, s: &str) {
        self.u64(rng::fnv1a(s.as_bytes()));
    }
}

pub fn hash_words(words: &[u64]) -> u64 {
    let mut h = ObsHash::default();
    for w in words {
        h.u64(*w);
    }
    h.0
}
