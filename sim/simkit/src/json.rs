//! Minimal JSON value, writer and parser (no external crates; object key order is preserved).

use std::fmt::Write;

#[derive(Clone, Debug, PartialEq)]
pub enum Json {
    Null,
    Bool(bool),
    Int(i64),
    Float(f64),
    Str(String),
    Arr(Vec<Json>),
    Obj(Vec<(String, Json)>),
}

impl Json {
    pub fn obj() -> Json {
        Json::Obj(Vec::new())
    }

    pub fn set(mut self, key: &str, value: impl Into<Json>) -> Json {
        self.put(key, value);
        self
    }

    pub fn put(&mut self, key: &str, value: impl Into<Json>) {
        if let Json::Obj(items) = self {
            let value = value.into();
            if let Some(slot) = items.iter_mut().find(|(k, _)| k == key) {
                slot.1 = value;
            } else {
                items.push((key.to_string(), value));
            }
        } else {
            panic!("Json::put on non-object");
        }
    }

    pub fn get(&self, key: &str) -> Option<&Json> {
        match self {
            Json::Obj(items) => items.iter().find(|(k, _)| k == key).map(|(_, v)| v),
            _ => None,
        }
    }

    pub fn req(&self, key: &str) -> Result<&Json, String> {
        self.get(key).ok_or_else(|| format!("missing key '{key}'"))
    }

    pub fn as_i64(&self) -> Result<i64, String> {
        match self {
            Json::Int(i) => Ok(*i),
            Json::Float(f) if f.fract() == 0.0 => Ok(*f as i64),
            _ => Err(format!("expected integer, got {self:?}")),
        }
    }

    pub fn as_u32(&self) -> Result<u32, String> {
        let v = self.as_i64()?;
        u32::try_from(v).map_err(|_| format!("out of u32 range: {v}"))
    }

    pub fn as_bool(&self) -> Result<bool, String> {
        match self {
            Json::Bool(b) => Ok(*b),
            _ => Err(format!("expected bool, got {self:?}")),
        }
    }

    pub fn as_str(&self) -> Result<&str, String> {
        match self {
            Json::Str(s) => Ok(s),
            _ => Err(format!("expected string, got {self:?}")),
        }
    }

    pub fn as_arr(&self) -> Result<&[Json], String> {
        match self {
            Json::Arr(a) => Ok(a),
            _ => Err(format!("expected array, got {self:?}")),
        }
    }

    pub fn is_null(&self) -> bool {
        matches!(self, Json::Null)
    }

    pub fn to_string_compact(&self) -> String {
        let mut out = String::new();
        self.write(&mut out, None, 0);
        out
    }

    pub fn to_string_pretty(&self) -> String {
        let mut out = String::new();
        self.write(&mut out, Some(1), 0);
        out.push('\n');
        out
    }

    fn write(&self, out: &mut String, indent: Option<usize>, depth: usize) {
        match self {
            Json::Null => out.push_str("null"),
            Json::Bool(b) => out.push_str(if *b { "true" } else { "false" }),
            Json::Int(i) => {
                let _ = write!(out, "{i}");
            }
            Json::Float(f) => {
                if f.is_finite() {
                    if f.fract() == 0.0 && f.abs() < 1e15 {
                        let _ = write!(out, "{f:.1}");
                    } else {
                        let _ = write!(out, "{f:e}");
                    }
                } else {
                    // JSON has no non-finite numbers; write as string.
                    let _ = write!(out, "\"{f}\"");
                }
            }
            Json::Str(s) => write_str(out, s),
            Json::Arr(items) => {
                // Arrays of scalars are written on one line even in pretty mode.
                let scalar = items
                    .iter()
                    .all(|i| !matches!(i, Json::Arr(_) | Json::Obj(_)));
                out.push('[');
                for (i, item) in items.iter().enumerate() {
                    if i > 0 {
                        out.push(',');
                    }
                    if !scalar {
                        newline(out, indent, depth + 1);
                    } else if i > 0 && indent.is_some() {
                        out.push(' ');
                    }
                    item.write(out, indent, depth + 1);
                }
                if !scalar && !items.is_empty() {
                    newline(out, indent, depth);
                }
                out.push(']');
            }
            Json::Obj(items) => {
                out.push('{');
                for (i, (k, v)) in items.iter().enumerate() {
                    if i > 0 {
                        out.push(',');
                    }
                    newline(out, indent, depth + 1);
                    write_str(out, k);
                    out.push(':');
                    if indent.is_some() {
                        out.push(' ');
                    }
                    v.write(out, indent, depth + 1);
                }
                if !items.is_empty() {
                    newline(out, indent, depth);
                }
                out.push('}');
            }
        }
    }

    pub fn parse(text: &str) -> Result<Json, String> {
        let mut p = Parser {
            s: text.as_bytes(),
            i: 0,
        };
        p.ws();
        let v = p.value()?;
        p.ws();
        if p.i != p.s.len() {
            return Err(format!("trailing characters at byte {}", p.i));
        }
        Ok(v)
    }
}

fn newline(out: &mut String, indent: Option<usize>, depth: usize) {
    if let Some(n) = indent {
        out.push('\n');
        for _ in 0..(n * depth) {
            out.push(' ');
        }
    }
}

fn write_str(out: &mut String, s: &str) {
    out.push('"');
    for c in s.chars() {
        match c {
            '"' => out.push_str("\\\""),
            '\\' => out.push_str("\\\\"),
            '\n' => out.push_str("\\n"),
            '\r' => out.push_str("\\r"),
            '\t' => out.push_str("\\t"),
            c if (c as u32) < 0x20 => {
                let _ = write!(out, "\\u{:04x}", c as u32);
            }
            c => out.push(c),
        }
    }
    out.push('"');
}

struct Parser<'a> {
    s: &'a [u8],
    i: usize,
}

impl<'a> Parser<'a> {
    fn ws(&mut self) {
        while self.i < self.s.len() && matches!(self.s[self.i], b' ' | b'\n' | b'\r' | b'\t') {
            self.i += 1;
        }
    }

    fn value(&mut self) -> Result<Json, String> {
        if self.i >= self.s.len() {
            return Err("unexpected end".into());
        }
        match self.s[self.i] {
            b'n' => self.lit("null", Json::Null),
            b't' => self.lit("true", Json::Bool(true)),
            b'f' => self.lit("false", Json::Bool(false)),
            b'"' => Ok(Json::Str(self.string()?)),
            b'[' => {
                self.i += 1;
                let mut items = Vec::new();
                self.ws();
                if self.peek() == Some(b']') {
                    self.i += 1;
                    return Ok(Json::Arr(items));
                }
                loop {
                    self.ws();
                    items.push(self.value()?);
                    self.ws();
                    match self.peek() {
                        Some(b',') => self.i += 1,
                        Some(b']') => {
                            self.i += 1;
                            return Ok(Json::Arr(items));
                        }
                        _ => return Err(format!("expected , or ] at byte {}", self.i)),
                    }
                }
            }
            b'{' => {
                self.i += 1;
                let mut items = Vec::new();
                self.ws();
                if self.peek() == Some(b'}') {
                    self.i += 1;
                    return Ok(Json::Obj(items));
                }
                loop {
                    self.ws();
                    let k = self.string()?;
                    self.ws();
                    if self.peek() != Some(b':') {
                        return Err(format!("expected : at byte {}", self.i));
                    }
                    self.i += 1;
                    self.ws();
                    let v = self.value()?;
                    items.push((k, v));
                    self.ws();
                    match self.peek() {
                        Some(b',') => self.i += 1,
                        Some(b'}') => {
                            self.i += 1;
                            return Ok(Json::Obj(items));
                        }
                        _ => return Err(format!("expected , or }} at byte {}", self.i)),
                    }
                }
            }
            _ => self.number(),
        }
    }

    fn peek(&self) -> Option<u8> {
        self.s.get(self.i).copied()
    }

    fn lit(&mut self, word: &str, v: Json) -> Result<Json, String> {
        if self.s[self.i..].starts_with(word.as_bytes()) {
            self.i += word.len();
            Ok(v)
        } else {
            Err(format!("bad literal at byte {}", self.i))
        }
    }

    fn string(&mut self) -> Result<String, String> {
        if self.peek() != Some(b'"') {
            return Err(format!("expected string at byte {}", self.i));
        }
        self.i += 1;
        let mut out = Vec::new();
        loop {
            let c = *self.s.get(self.i).ok_or("unterminated string")?;
            self.i += 1;
            match c {
                b'"' => break,
                b'\\' => {
                    let e = *self.s.get(self.i).ok_or("bad escape")?;
                    self.i += 1;
                    match e {
                        b'n' => out.push(b'\n'),
                        b'r' => out.push(b'\r'),
                        b't' => out.push(b'\t'),
                        b'b' => out.push(8),
                        b'f' => out.push(12),
                        b'u' => {
                            let hex = std::str::from_utf8(
                                self.s.get(self.i..self.i + 4).ok_or("bad \\u escape")?,
                            )
                            .map_err(|e| e.to_string())?;
                            let cp = u32::from_str_radix(hex, 16).map_err(|e| e.to_string())?;
                            self.i += 4;
                            let ch = char::from_u32(cp).unwrap_or('\u{fffd}');
                            let mut buf = [0u8; 4];
                            out.extend_from_slice(ch.encode_utf8(&mut buf).as_bytes());
                        }
                        other => out.push(other),
                    }
                }
                other => out.push(other),
            }
        }
        String::from_utf8(out).map_err(|e| e.to_string())
    }

    fn number(&mut self) -> Result<Json, String> {
        let start = self.i;
        while self.i < self.s.len()
            && matches!(self.s[self.i], b'0'..=b'9' | b'-' | b'+' | b'.' | b'e' | b'E')
        {
            self.i += 1;
        }
        let text = std::str::from_utf8(&self.s[start..self.i]).map_err(|e| e.to_string())?;
        if text.is_empty() {
            return Err(format!("unexpected character at byte {start}"));
        }
        if let Ok(i) = text.parse::<i64>() {
            return Ok(Json::Int(i));
        }
        text.parse::<f64>()
            .map(Json::Float)
            .map_err(|e| format!("bad number '{text}': {e}"))
    }
}

impl From<bool> for Json {
    fn from(v: bool) -> Self {
        Json::Bool(v)
    }
}
impl From<i64> for Json {
    fn from(v: i64) -> Self {
        Json::Int(v)
    }
}
impl From<i32> for Json {
    fn from(v: i32) -> Self {
        Json::Int(v as i64)
    }
}
impl From<u32> for Json {
    fn from(v: u32) -> Self {
        Json::Int(v as i64)
    }
}
impl From<u8> for Json {
    fn from(v: u8) -> Self {
        Json::Int(v as i64)
    }
}
impl From<usize> for Json {
    fn from(v: usize) -> Self {
        Json::Int(v as i64)
    }
}
impl From<u64> for Json {
    fn from(v: u64) -> Self {
        if v <= i64::MAX as u64 {
            Json::Int(v as i64)
        } else {
            Json::Str(format!("{v}"))
        }
    }
}
impl From<f64> for Json {
    fn from(v: f64) -> Self {
        Json::Float(v)
    }
}
impl From<&str> for Json {
    fn from(v: &str) -> Self {
        Json::Str(v.to_string())
    }
}
impl From<String> for Json {
    fn from(v: String) -> Self {
        Json::Str(v)
    }
}
impl From<Vec<Json>> for Json {
    fn from(v: Vec<Json>) -> Self {
        Json::Arr(v)
    }
}
impl<T: Into<Json>> From<Option<T>> for Json {
    fn from(v: Option<T>) -> Self {
        match v {
            Some(x) => x.into(),
            None => Json::Null,
        }
    }
}

/// An f32 stored loss-free as a string `"<decimal>#<hex bit pattern>"`, e.g. `"0.5#3f000000"`.
pub fn f32_to_json(v: f32) -> Json {
    Json::Str(format!("{v:?}#{:08x}", v.to_bits()))
}

pub fn f32_from_json(j: &Json) -> Result<f32, String> {
    match j {
        Json::Str(s) => match s.split_once('#') {
            Some((_, hex)) => u32::from_str_radix(hex, 16)
                .map(f32::from_bits)
                .map_err(|e| format!("bad f32 bits '{s}': {e}")),
            None => s.parse::<f32>().map_err(|e| format!("bad f32 '{s}': {e}")),
        },
        Json::Int(i) => Ok(*i as f32),
        Json::Float(f) => Ok(*f as f32),
        _ => Err(format!("expected f32, got {j:?}")),
    }
}
