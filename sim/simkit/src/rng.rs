// Seeded PRNG: splitmix64 seeding into xoshiro256**. One integer decides everything.

#[derive(Clone, Debug)]
pub struct Rng {
    s: [u64; 4],
}

pub fn splitmix64(state: &mut u64) -> u64 {
    *state = state.wrapping_add(0x9E37_79B9_7F4A_7C15);
    let mut z = *state;
    z = (z ^ (z >> 30)).wrapping_mul(0xBF58_476D_1CE4_E5B9);
    z = (z ^ (z >> 27)).wrapping_mul(0x94D0_49BB_1331_11EB);
    z ^ (z >> 31)
}

/// Stable 64-bit hash of a string (FNV-1a), used for stream names.
pub fn fnv1a(bytes: &[u8]) -> u64 {
    let mut h: u64 = 0xcbf2_9ce4_8422_2325;
    for b in bytes {
        h ^= *b as u64;
        h = h.wrapping_mul(0x0000_0100_0000_01B3);
    }
    h
}

impl Rng {
    pub fn new(seed: u64) -> Self {
        let mut st = seed;
        let s = [
            splitmix64(&mut st),
            splitmix64(&mut st),
            splitmix64(&mut st),
            splitmix64(&mut st),
        ];
        Rng { s }
    }

    /// Independent stream for (root seed, engine/purpose name, run index).
    pub fn stream(seed: u64, name: &str, index: u64) -> Self {
        let mut st = seed ^ fnv1a(name.as_bytes()).rotate_left(17);
        let a = splitmix64(&mut st);
        let mut st2 = a ^ index.wrapping_mul(0xD6E8_FEB8_6659_FD93);
        let b = splitmix64(&mut st2);
        Rng::new(a ^ b.rotate_left(29))
    }

    pub fn next_u64(&mut self) -> u64 {
        let result = self.s[1].wrapping_mul(5).rotate_left(7).wrapping_mul(9);
        let t = self.s[1] << 17;
        self.s[2] ^= self.s[0];
        self.s[3] ^= self.s[1];
        self.s[1] ^= self.s[2];
        self.s[0] ^= self.s[3];
        self.s[2] ^= t;
        self.s[3] = self.s[3].rotate_left(45);
        result
    }

    /// Uniform in [0, n). n must be > 0.
    pub fn below(&mut self, n: u64) -> u64 {
        debug_assert!(n > 0);
        // Lemire-style multiply-shift; the tiny bias is irrelevant here but keep it deterministic.
        ((self.next_u64() as u128 * n as u128) >> 64) as u64
    }

    pub fn range(&mut self, lo: i64, hi_inclusive: i64) -> i64 {
        lo + self.below((hi_inclusive - lo + 1) as u64) as i64
    }

    pub fn usize_below(&mut self, n: usize) -> usize {
        self.below(n as u64) as usize
    }

    /// Uniform f64 in [0,1).
    pub fn unit(&mut self) -> f64 {
        (self.next_u64() >> 11) as f64 / (1u64 << 53) as f64
    }

    pub fn chance(&mut self, p: f64) -> bool {
        self.unit() < p
    }

    pub fn pick<'a, T>(&mut self, items: &'a [T]) -> &'a T {
        &items[self.usize_below(items.len())]
    }

    pub fn shuffle<T>(&mut self, items: &mut [T]) {
        for i in (1..items.len()).rev() {
            let j = self.usize_below(i + 1);
            items.swap(i, j);
        }
    }

    /// Weighted index choice.
    pub fn weighted(&mut self, weights: &[u32]) -> usize {
        let total: u64 = weights.iter().map(|w| *w as u64).sum();
        let mut x = self.below(total.max(1));
        for (i, w) in weights.iter().enumerate() {
            if x < *w as u64 {
                return i;
            }
            x -= *w as u64;
        }
        weights.len() - 1
    }
}
