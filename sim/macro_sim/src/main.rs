//! macro_sim: lock-step differential simulation of twin animators. build.rs generates, from a
//! corpus seed, pairs of the same abstract animator rendered once through `animator!` (documented
//! grammar, randomised surface form) and once through `StateAnimatorBuilder` (documented meaning).
//! At run time both twins are driven by the same seeded history (same clock, same events, same
//! faults) and must be indistinguishable after every operation. Decides the history part of C16.

use mina::prelude::*;
use simkit::driver::{main_cli, Engine, RunOutcome, Tier, Violation};
use simkit::json::{f32_from_json, f32_to_json, Json};
use simkit::panic::catch;
use simkit::rng::Rng;
use simkit::{hash_words, ObsHash};

#[derive(Animate, Clone, Debug, Default, PartialEq)]
pub struct MVals {
    pub a: f32,
    pub b: f32,
    pub n: i32,
    pub k: u8,
}

#[derive(Clone, Copy, Debug, Default, Eq, PartialEq, State)]
pub enum MSt {
    #[default]
    S0,
    S1,
    S2,
    S3,
}

const STATES: [MSt; 4] = [MSt::S0, MSt::S1, MSt::S2, MSt::S3];

/// Used by corpus entries: a non-default base for struct update syntax, and a counter whose value
/// tells how often an inline default expression was evaluated.
#[allow(dead_code)]
fn base_vals() -> MVals {
    MVals { a: 9.5, b: -3.25, n: 41, k: 17 }
}

thread_local! {
    static TICK: std::cell::Cell<i32> = const { std::cell::Cell::new(0) };
}

#[allow(dead_code)]
fn reset_tick() {
    TOCK.with(|t| t.set(0));
    TICK.with(|t| t.set(0));
}

thread_local! {
    static TOCK: std::cell::Cell<i32> = const { std::cell::Cell::new(0) };
}

/// Counts evaluations of a keyframe value expression (reset together with `tick`).
#[allow(dead_code)]
fn tock() -> i32 {
    TOCK.with(|t| {
        t.set(t.get() + 1);
        t.get()
    })
}

#[allow(dead_code)]
fn tick() -> i32 {
    TICK.with(|t| {
        t.set(t.get() + 1);
        t.get()
    })
}

/// Used by corpus entries whose default values are written as a function call.
#[allow(dead_code)]
fn make_vals(a: f32, b: f32, n: i32, k: u8) -> MVals {
    MVals { a, b, n, k }
}

type BoxedAnimator = Box<dyn StateAnimator<State = MSt, Values = MVals>>;

include!(concat!(env!("OUT_DIR"), "/corpus.rs"));

#[derive(Clone, Copy, Debug, PartialEq)]
enum Op {
    Advance(f32),
    SetState(u8),
}

#[derive(Clone, Debug, PartialEq)]
struct Scn {
    pair: usize,
    ops: Vec<(Op, &'static str)>,
}

const FAULTS: [&str; 8] = [
    "none", "jitter", "zero_frame", "hitch", "event_burst", "duplicate_event", "flicker",
    "return_to_previous",
];

fn fault_static(s: &str) -> &'static str {
    FAULTS.iter().copied().find(|f| *f == s).unwrap_or("none")
}

fn generate(rng: &mut Rng, deep: bool) -> Scn {
    let pair = rng.usize_below(PAIR_COUNT);
    let grid = rng.chance(0.5);
    let period = if grid {
        *rng.pick(&[0.125f32, 0.25, 0.5, 1.0])
    } else {
        *rng.pick(&[1.0f32 / 60.0, 0.1, 0.37, 0.9])
    };
    let fault_free = rng.below(8) == 0;
    let mut on = |rng: &mut Rng, p: f64| if fault_free || rng.chance(0.5) { 0.0 } else { p };
    let p_zero = on(rng, 0.1);
    let p_hitch = on(rng, 0.1);
    let p_burst = on(rng, 0.25);
    let p_dup = on(rng, 0.15);
    let p_flicker = on(rng, 0.2);
    let p_return = on(rng, 0.4);
    let jitter = on(rng, 0.5);
    let p_event = *rng.pick(&[0.15, 0.3, 0.5]);
    let n_ops = if (deep && rng.chance(0.33)) || rng.chance(0.04) { rng.range(40, 160) as usize } else { rng.range(3, 40) as usize };
    let mut ops: Vec<(Op, &'static str)> = Vec::new();
    let mut cur = 0u8; // unknown initial state; only used for biasing
    let mut prev = 0u8;
    // A marathon run continues the finished schedule with a long tail drawn from a stream of its
    // own, forked from one extra value at the end of the main stream (all other runs, and the
    // first part of this one, stay what they were).
    let mut target_ops = n_ops;
    let mut tail_rng: Option<Rng> = None;
    loop {
    while ops.len() < target_ops {
        let rng: &mut Rng = match tail_rng.as_mut() {
            Some(r) => r,
            None => &mut *rng,
        };
        if rng.chance(p_event) {
            let burst = if rng.chance(p_burst) { rng.range(2, 4) } else { 1 };
            let mut flick: Option<(u8, u8)> = None;
            for bi in 0..burst {
                let (t, f): (u8, &'static str) = if let Some((x, y)) = flick {
                    (if bi % 2 == 0 { x } else { y }, "flicker")
                } else if rng.chance(p_dup) {
                    (cur, "duplicate_event")
                } else if burst > 1 && rng.chance(p_flicker) {
                    let o = rng.below(4) as u8;
                    flick = Some((cur, o));
                    (o, "flicker")
                } else if rng.chance(p_return) {
                    (prev, "return_to_previous")
                } else {
                    (rng.below(4) as u8, if burst > 1 { "event_burst" } else { "none" })
                };
                ops.push((Op::SetState(t), f));
                if t != cur {
                    prev = cur;
                    cur = t;
                }
            }
        }
        let (dt, f): (f32, &'static str) = if rng.chance(p_zero) {
            (0.0, "zero_frame")
        } else if rng.chance(p_hitch) {
            (
                if grid {
                    rng.range(8, 160) as f32 / 8.0
                } else {
                    (1.0 + rng.unit() * 20.0) as f32
                },
                "hitch",
            )
        } else if rng.chance(jitter) {
            (
                if grid {
                    period * rng.range(1, 4) as f32
                } else {
                    (period as f64 * (0.25 + 1.75 * rng.unit())) as f32
                },
                "jitter",
            )
        } else {
            (period, "none")
        };
        ops.push((Op::Advance(dt), f));
    }
    if tail_rng.is_some() {
        break;
    }
    let fork = rng.next_u64();
    // (not for a pair that uses an overshooting easing: hundreds of re-blends under a Back curve
    // can ratchet a value out of an integer's range - the panic `Lerp` documents)
    if fork % 97 == 0 && !PAIR_SOURCE[pair % PAIR_COUNT].contains("Back") {
        let mut r = Rng::new(fork ^ 0x6d61_7261_7468_6f6e);
        target_ops = ops.len() + r.range(250, if deep { 4500 } else { 1500 }) as usize;
        tail_rng = Some(r);
    } else {
        break;
    }
    }
    Scn { pair, ops }
}

fn same(x: &MVals, y: &MVals) -> Option<&'static str> {
    if x.a.to_bits() != y.a.to_bits() && !(x.a == y.a) {
        return Some("a");
    }
    if x.b.to_bits() != y.b.to_bits() && !(x.b == y.b) {
        return Some("b");
    }
    if x.n != y.n {
        return Some("n");
    }
    if x.k != y.k {
        return Some("k");
    }
    None
}

fn execute(scn: &Scn) -> RunOutcome {
    // same hidden state at the start of every run (see simmodel::normalise_hidden_state)
    {
        use mina::EasingFunction;
        let mut acc = 0.0f32;
        for e in [Easing::Ease, Easing::InOutQuad, Easing::OutBack, Easing::InExpo] {
            acc += e.calc(0.3125) + e.calc(0.75);
        }
        let tl = TimelineBuilder::build(
            MVals::timeline()
                .duration_seconds(2.0)
                .keyframe(MVals::keyframe(0.0).a(1.0))
                .keyframe(MVals::keyframe(1.0).a(3.0).n(4)),
        );
        let mut v = MVals::default();
        tl.update(&mut v, 0.5);
        std::hint::black_box((acc, v));
    }
    let mut out = RunOutcome::default();
    let mut h = ObsHash::default();
    let fail = |clause: &str, step: usize, detail: String| Violation {
        property: "C16".into(),
        clause: clause.into(),
        step,
        detail: format!("{detail}\n--- macro twin (pair {}) ---\n{}", scn.pair, PAIR_SOURCE[scn.pair % PAIR_COUNT]),
        signature: format!("pair={} features={:?}", scn.pair, PAIR_FEATURES[scn.pair % PAIR_COUNT]),
    };
    let (mut m, mut b) = match catch(|| make_pair(scn.pair)) {
        Ok(p) => p,
        Err(p) => {
            out.violation = Some(fail(
                &format!("panic@{}:{}", p.file, p.line),
                0,
                format!("building the twins panicked: {}", p.describe()),
            ));
            return out;
        }
    };
    for f in PAIR_FEATURES[scn.pair % PAIR_COUNT] {
        out.count(&format!("grammar_feature.{f}"));
    }
    let compare = |m: &BoxedAnimator, b: &BoxedAnimator, h: &mut ObsHash| -> Option<String> {
        let (mv, bv) = (m.current_values(), b.current_values());
        h.f32(mv.a);
        h.f32(mv.b);
        h.u32(mv.n as u32);
        h.u32(mv.k as u32);
        h.u32(*m.current_state() as u32);
        h.bool(m.is_ended());
        if m.current_state() != b.current_state() {
            return Some(format!(
                "current_state: macro {:?}, builder {:?}",
                m.current_state(),
                b.current_state()
            ));
        }
        if let Some(f) = same(mv, bv) {
            return Some(format!("current_values.{f}: macro {mv:?}, builder {bv:?}"));
        }
        if m.is_ended() != b.is_ended() {
            return Some(format!("is_ended: macro {}, builder {}", m.is_ended(), b.is_ended()));
        }
        None
    };
    out.evaluations += 1;
    if let Some(d) = compare(&m, &b, &mut h) {
        out.violation = Some(fail("twins-differ-initially", 0, d));
        out.obs_hash = h.0;
        return out;
    }
    let mut visited = 1u64 << (*m.current_state() as u64);
    for (step, (op, fault)) in scn.ops.iter().enumerate() {
        out.steps += 1;
        out.count(&format!("fault_fired.{fault}"));
        let r = catch(|| match op {
            Op::Advance(dt) => {
                m.advance(*dt);
                b.advance(*dt);
            }
            Op::SetState(s) => {
                let st = STATES[*s as usize % 4];
                m.set_state(&st);
                b.set_state(&st);
            }
        });
        if let Op::Advance(dt) = op {
            out.sim_seconds += *dt as f64;
        }
        if let Err(p) = r {
            out.violation = Some(fail(
                &format!("panic@{}:{}", p.file, p.line),
                step,
                format!("{op:?} panicked: {}", p.describe()),
            ));
            break;
        }
        out.evaluations += 1;
        visited |= 1u64 << (*m.current_state() as u64);
        let opcode = match op {
            Op::Advance(dt) if *dt == 0.0 => 0u64,
            Op::Advance(_) => 1,
            Op::SetState(_) => 2,
        };
        out.triggered = true;
        out.distinct.insert(hash_words(&[
            scn.pair as u64,
            opcode,
            *m.current_state() as u64,
            m.is_ended() as u64,
            visited.count_ones() as u64,
        ]));
        if let Some(d) = compare(&m, &b, &mut h) {
            out.violation = Some(fail("twins-differ", step, format!("after {op:?}: {d}")));
            break;
        }
    }
    out.obs_hash = h.0;
    out
}

struct MacroEngine;

impl Engine for MacroEngine {
    type Scn = Scn;
    fn name(&self) -> &'static str {
        "macro_sim"
    }
    fn properties(&self) -> &'static [&'static str] {
        &["C16"]
    }
    fn generate(&self, rng: &mut Rng, _property: &str, tier: Tier) -> Scn {
        generate(rng, tier == Tier::Thorough)
    }
    fn execute(&self, scn: &Scn, _property: &str) -> RunOutcome {
        execute(scn)
    }
    fn shrink_candidates(&self, s: &Scn) -> Vec<Scn> {
        let mut out = Vec::new();
        let n = s.ops.len();
        let mut len = n / 2;
        while len >= 1 {
            let mut start = 0;
            while start + len <= n {
                let mut c = s.clone();
                c.ops.drain(start..start + len);
                out.push(c);
                start += len;
            }
            len /= 2;
        }
        for i in 0..n {
            match s.ops[i].0 {
                Op::Advance(dt) => {
                    for cand in [0.0f32, 0.125, 0.5, 1.0, (dt * 8.0).round() / 8.0] {
                        if cand != dt {
                            let mut c = s.clone();
                            c.ops[i].0 = Op::Advance(cand);
                            out.push(c);
                        }
                    }
                }
                Op::SetState(st) => {
                    for cand in 0..st {
                        let mut c = s.clone();
                        c.ops[i].0 = Op::SetState(cand);
                        out.push(c);
                    }
                }
            }
        }
        // an earlier pair of the corpus that fails the same way is simpler to read
        for p in 0..s.pair.min(8) {
            let mut c = s.clone();
            c.pair = p;
            out.push(c);
        }
        out
    }
    fn size(&self, s: &Scn) -> usize {
        s.ops.len() * 2 + PAIR_SOURCE[s.pair % PAIR_COUNT].len() / 40
    }
    fn to_json(&self, s: &Scn) -> Json {
        Json::obj()
            .set("corpus_seed", CORPUS_SEED)
            .set("corpus_size", PAIR_COUNT)
            .set("pair", s.pair)
            .set("pair_macro_source", PAIR_SOURCE[s.pair % PAIR_COUNT])
            .set(
                "trace",
                Json::Arr(
                    s.ops
                        .iter()
                        .map(|(op, f)| {
                            let mut j = match op {
                                Op::Advance(dt) => Json::obj().set("advance", f32_to_json(*dt)),
                                Op::SetState(st) => Json::obj().set("set_state", *st),
                            };
                            if *f != "none" {
                                j.put("fault", *f);
                            }
                            j
                        })
                        .collect(),
                ),
            )
    }
    fn from_json(&self, j: &Json) -> Result<Scn, String> {
        let seed = j.req("corpus_seed")?.as_i64()? as u64;
        let size = j.req("corpus_size")?.as_i64()? as usize;
        if seed != CORPUS_SEED || size != PAIR_COUNT {
            return Err(format!(
                "replay file was recorded with corpus seed {seed} / size {size}; this binary has {CORPUS_SEED} / {PAIR_COUNT} (rebuild with MACRO_SIM_CORPUS_SEED={seed} MACRO_SIM_CORPUS_SIZE={size})"
            ));
        }
        let mut ops = Vec::new();
        for o in j.req("trace")?.as_arr()? {
            let f = fault_static(o.get("fault").and_then(|v| v.as_str().ok()).unwrap_or("none"));
            if let Some(dt) = o.get("advance") {
                ops.push((Op::Advance(f32_from_json(dt)?), f));
            } else {
                ops.push((Op::SetState(o.req("set_state")?.as_i64()? as u8), f));
            }
        }
        Ok(Scn {
            pair: j.req("pair")?.as_i64()? as usize,
            ops,
        })
    }
    fn components_real(&self) -> Vec<&'static str> {
        vec![
            "mina_macros::animator! and the timeline grammar it shares with timeline! (expanded when the harness is compiled)",
            "mina_macros::Animate derive",
            "mina_core StateAnimatorBuilder / MappedTimelineAnimator / timelines (both twins)",
        ]
    }
    fn components_simulated(&self) -> Vec<&'static str> {
        vec![
            "wall clock / frame pacer, user input and fault injector (same trace delivered to both twins)",
            "the programs: a generated corpus of animator! blocks (build.rs), not a hand-written one",
        ]
    }
    fn rule(&self, _property: &str) -> String {
        format!("build.rs renders {PAIR_COUNT} abstract animators (corpus seed {CORPUS_SEED}) as animator! blocks with randomised surface form and as the documented builder chains; each run picks a pair and drives both twins with one seeded history (<=40 operations with zero frames, hitches, bursts, duplicates, flicker); evaluation = one lock-step comparison of current_values / current_state / is_ended; distinct = (pair, operation kind, state, ended?, number of states visited) tuples")
    }
    fn assumptions(&self, _property: &str) -> Vec<String> {
        vec![
            "only literals for which the alternative readings of the documentation agree bit-for-bit are generated (N*0.001 == N/1000, P*0.01 == P/100 in f32)".into(),
            "the program dimension is the generated corpus compiled into the harness; ill-formed blocks (compile-time rejection) are not covered".into(),
        ]
    }
    fn default_runs(&self, _property: &str, tier: Tier) -> u64 {
        match tier {
            Tier::Quick => 300_000,
            Tier::Thorough => 6_000_000,
        }
    }
}

fn main() {
    std::process::exit(main_cli(&MacroEngine));
}
