//! Generates the twin corpus: for a corpus seed, N abstract animator descriptions, each rendered
//! (1) as an `animator!` block in the documented grammar with randomised surface form and
//! (2) as the `StateAnimatorBuilder` call chain the documentation says it means.
//! Output: $OUT_DIR/corpus.rs (included by src/main.rs).

use std::fmt::Write as _;

#[allow(dead_code)]
mod rng {
    include!("../simkit/src/rng.rs");
}
use rng::Rng;

const FIELDS: [&str; 4] = ["a", "b", "n", "k"];
const EASINGS: [&str; 29] = [
    "Linear", "Ease", "In", "Out", "InOut", "InSine", "OutSine", "InOutSine", "InQuad", "OutQuad",
    "InOutQuad", "InCubic", "OutCubic", "InOutCubic", "InQuart", "OutQuart", "InOutQuart",
    "InQuint", "OutQuint", "InOutQuint", "InExpo", "OutExpo", "InOutExpo", "InCirc", "OutCirc",
    "InOutCirc", "InBack", "OutBack", "InOutBack",
];

#[derive(Clone)]
struct TimeLit {
    /// as written in the macro, e.g. `250ms`, `1_500ms`, `0.75s`, `2s`
    text: String,
    /// the documented reading in seconds (bit pattern emitted into the builder twin)
    seconds: f32,
}

#[derive(Clone)]
enum Pos {
    From,
    To,
    Pct(String, f32),
}

#[derive(Clone)]
enum Body {
    Default,
    Fields(Vec<(usize, String)>),
}

#[derive(Clone)]
struct Kf {
    pos: Pos,
    body: Body,
}

#[derive(Clone)]
struct Tl {
    /// an additional easing path written *earlier* in the argument list than `easing`; the later
    /// one is the one in force (like calling `.default_easing(..)` twice)
    earlier_easing: Option<usize>,
    duration: Option<(TimeLit, bool)>, // (literal, written with `for`)
    delay: Option<TimeLit>,
    easing: Option<usize>,
    repeat: Option<Option<u32>>, // Some(None) = infinite, Some(Some(n)) = nx
    reverse: bool,
    kfs: Vec<Kf>,
    /// order in which the non-keyframe arguments and keyframes are written
    arg_order: Vec<usize>,
}

#[derive(Clone)]
enum Defaults {
    None,
    /// default(State) - values omitted
    StateOnly(usize),
    Inline(usize, Vec<(usize, String)>),
    Expr(usize, [String; 4]),
    /// an expression that is a function call: `make_vals(a, b, n, k)`
    Call(usize, [String; 4]),
    /// struct update syntax: `MVals { a: .., n: .., ..MVals::default() }`
    Update(usize, [String; 2]),
    /// struct update syntax over a non-default base: `MVals { a: .., ..base_vals() }`
    UpdateBase(usize, String),
    /// inline defaults whose field expressions read variables of the *caller* that are named like
    /// plausible locals of the expansion: `{ n: values.n, k: default_values.k, a: .. }`
    CallerVars(usize, String),
    /// inline defaults whose field expression is not idempotent: `{ n: tick(), a: .. }` - it must
    /// be evaluated exactly once
    Counted(usize, String),
}

struct Arm {
    states: Vec<usize>,
    tls: Vec<Tl>,
    bracketed: bool,
    /// a comma after the last timeline inside the brackets (the style of the project's README)
    bracket_trailing_comma: bool,
    /// (timeline, keyframe, field) whose value is written as the call `tock()` in the macro: a
    /// counter that tells how often the arm's expressions are evaluated. "A | B => ..." installs
    /// the *same* timeline for each listed state, so once - the builder twin uses the literal 1.
    counted_value: Option<(usize, usize, usize)>,
    /// same position, written as `default_values.n` where `default_values` is a variable of the
    /// *user* (holding n = 77) in scope of the macro call: the builder twin uses the literal 77.
    user_variable: Option<(usize, usize, usize)>,
}

struct Animator {
    defaults: Defaults,
    arms: Vec<Arm>,
    features: Vec<&'static str>,
    /// builder twin: from_state / from_values after the `on` calls
    defaults_last: bool,
    long_paths: bool,
    trailing_comma: bool,
}

fn time_lit(rng: &mut Rng) -> TimeLit {
    loop {
        match rng.below(4) {
            0 => {
                // whole seconds
                let n = rng.range(1, 6);
                return TimeLit {
                    text: format!("{n}s"),
                    seconds: n as f32,
                };
            }
            1 => {
                // fractional seconds with an exactly representable fraction
                let eighths = rng.range(1, 40);
                let v = eighths as f32 / 8.0;
                return TimeLit {
                    text: format!("{v:?}s"),
                    seconds: format!("{v:?}").parse::<f32>().unwrap(),
                };
            }
            2 if rng.chance(0.05) => {
                // literals a hair above the midpoint of two adjacent f32 values: rounding them to
                // f64 first and then to f32 gives the wrong neighbour
                let text = *["1.0000000596046447753906251", "16777217.000000001", "0.50000002980232238769531251", "2.00000011920928955078125001"]
                    .get(rng.usize_below(4))
                    .unwrap();
                return TimeLit {
                    seconds: text.parse::<f32>().unwrap(),
                    text: format!("{text}s"),
                };
            }
            2 => {
                // decimal seconds, e.g. 0.3s: the literal itself is the documented value
                let tenths = rng.range(1, 35);
                let text = format!("{}.{}", tenths / 10, tenths % 10);
                return TimeLit {
                    seconds: text.parse::<f32>().unwrap(),
                    text: format!("{text}s"),
                };
            }
            _ => {
                // fractional milliseconds (a float literal with the ms suffix)
                if rng.chance(0.15) {
                    // fractions that are exact in f32 and fractions that are not: "16.7ms" is the
                    // decimal number 16.7 divided by 1000, rounded to f32 once
                    let text = *["0.5", "1.5", "2.5", "12.5", "62.5", "0.25", "187.5", "0.75", "333.5", "16.7", "100.1", "250.1", "166.7", "33.3", "0.1", "1234.567"]
                        .get(rng.usize_below(16))
                        .unwrap();
                    return TimeLit {
                        text: format!("{text}ms"),
                        seconds: (text.parse::<f64>().unwrap() / 1000.0) as f32,
                    };
                }
                // milliseconds: round values and arbitrary ones ("700ms" is the f32 0.7, the
                // duration a builder user writes as `.duration_seconds(0.7)`)
                let n = if rng.chance(0.5) {
                    *[50i64, 100, 125, 250, 375, 500, 700, 750, 900, 1000, 1250, 1500, 1800, 2000, 2500, 3000]
                        .get(rng.usize_below(16))
                        .unwrap()
                } else {
                    rng.range(1, 4000)
                };
                let b = n as f32 / 1000.0f32;
                let text = if n >= 1000 && rng.chance(0.5) {
                    format!("{}_{:03}ms", n / 1000, n % 1000)
                } else {
                    format!("{n}ms")
                };
                return TimeLit { text, seconds: b };
            }
        }
    }
}

fn value_lit(rng: &mut Rng, field: usize) -> String {
    match field {
        0 | 1 => {
            let v = rng.range(-400, 400) as f32 / 4.0;
            if rng.chance(0.15) {
                // integer-looking float literal with explicit type suffix
                format!("{}f32", v.round() as i64)
            } else {
                format!("{v:?}")
            }
        }
        2 => format!("{}", rng.range(-500, 500)),
        _ => format!("{}", rng.range(0, 255)),
    }
}

fn gen_tl(rng: &mut Rng, allow_default_body: bool, need_keyframe: bool) -> Tl {
    let easing = if rng.chance(0.6) {
        Some(rng.usize_below(EASINGS.len()))
    } else {
        None
    };
    let back = easing.map(|e| e >= 26).unwrap_or(false);
    // (an arm may consist of timing arguments only: a timeline without keyframes still counts
    // as animated for pause/resume and has a duration)
    let n_kfs = if !need_keyframe && rng.chance(0.1) { 0 } else { rng.range(1, 4) as usize };
    let mut kfs: Vec<Kf> = Vec::new();
    let mut used: Vec<u32> = Vec::new(); // positions in 1/1000 to keep them distinct
    for _ in 0..n_kfs {
        let (pos, key) = match rng.below(4) {
            0 => (Pos::From, 0u32),
            1 => (Pos::To, 1000),
            _ => {
                // N% with both readings of the documentation agreeing (N * 0.01 == N / 100 in f32)
                loop {
                    let (text, n) = if rng.chance(0.6) {
                        let n = rng.range(1, 99) as f32;
                        (format!("{}", n as i64), n)
                    } else if rng.chance(0.6) {
                        let n = rng.range(2, 198) as f32 / 2.0;
                        (format!("{n:?}"), n)
                    } else {
                        // tenths: not exact in f32 ("16.7%" is the decimal 16.7 divided by 100,
                        // rounded once)
                        let tenths = rng.range(1, 999);
                        let text = format!("{}.{}", tenths / 10, tenths % 10);
                        let pos = (text.parse::<f64>().unwrap() / 100.0) as f32;
                        break (Pos::Pct(text, pos), tenths as u32);
                    };
                    // N% is the position N / 100: the f32 nearest to that
                    break (Pos::Pct(text, n / 100.0), (n * 10.0) as u32);
                }
            }
        };
        if used.contains(&key) {
            continue;
        }
        used.push(key);
        let body = if allow_default_body && !back && rng.chance(0.2) {
            Body::Default
        } else {
            let mut fields = Vec::new();
            for f in 0..4 {
                if f == 3 && back {
                    continue; // u8 under a Back easing: documented overshoot panic
                }
                if rng.chance(0.5) {
                    fields.push((f, value_lit(rng, f)));
                }
            }
            // an empty block `{}` is a keyframe that defines nothing (10% of the empty cases)
            if fields.is_empty() && !rng.chance(0.1) {
                let f = rng.usize_below(3);
                fields.push((f, value_lit(rng, f)));
            }
            if rng.chance(0.3) {
                fields.reverse();
            }
            Body::Fields(fields)
        };
        kfs.push(Kf { pos, body });
    }
    let duration = if rng.chance(0.85) {
        Some((time_lit(rng), rng.chance(0.3)))
    } else {
        None
    };
    let delay = if rng.chance(0.35) { Some(time_lit(rng)) } else { None };
    let repeat = if rng.chance(0.15) {
        Some(None)
    } else if rng.chance(0.3) {
        Some(Some(*[1u32, 1, 2, 3, 5].get(rng.usize_below(5)).unwrap()))
    } else {
        None
    };
    let reverse = rng.chance(0.3);
    // order: indices 0..5 = duration, delay, easing, repeat, reverse ; 5.. = keyframes
    let mut arg_order: Vec<usize> = (0..5 + kfs.len()).collect();
    if rng.chance(0.6) {
        rng.shuffle(&mut arg_order);
    }
    let earlier_easing = if easing.is_some() && !back && rng.chance(0.12) {
        Some(rng.usize_below(26))
    } else {
        None
    };
    Tl {
        earlier_easing,
        duration,
        delay,
        easing,
        repeat,
        reverse,
        kfs,
        arg_order,
    }
}

fn render_tl_macro(tl: &Tl) -> String {
    let mut parts: Vec<String> = Vec::new();
    if let Some(e) = tl.earlier_easing {
        parts.push(format!("Easing::{}", EASINGS[e]));
    }
    for idx in &tl.arg_order {
        match *idx {
            0 => {
                if let Some((lit, with_for)) = &tl.duration {
                    parts.push(if *with_for {
                        format!("for {}", lit.text)
                    } else {
                        lit.text.clone()
                    });
                }
            }
            1 => {
                if let Some(lit) = &tl.delay {
                    parts.push(format!("after {}", lit.text));
                }
            }
            2 => {
                if let Some(e) = tl.easing {
                    parts.push(format!("Easing::{}", EASINGS[e]));
                }
            }
            3 => match tl.repeat {
                Some(None) => parts.push("infinite".into()),
                Some(Some(n)) => parts.push(format!("{n}x")),
                None => {}
            },
            4 => {
                if tl.reverse {
                    parts.push("reverse".into());
                }
            }
            k => {
                let kf = &tl.kfs[k - 5];
                let pos = match &kf.pos {
                    Pos::From => "from".to_string(),
                    Pos::To => "to".to_string(),
                    Pos::Pct(t, _) => format!("{t}%"),
                };
                let body = match &kf.body {
                    Body::Default => "default".to_string(),
                    Body::Fields(fs) if fs.is_empty() => "{}".to_string(),
                    Body::Fields(fs) => format!(
                        "{{ {} }}",
                        fs.iter()
                            .map(|(f, v)| format!("{}: {}", FIELDS[*f], v))
                            .collect::<Vec<_>>()
                            .join(", ")
                    ),
                };
                parts.push(format!("{pos} {body}"));
            }
        }
    }
    parts.join(" ")
}

fn f32_expr(v: f32) -> String {
    format!("f32::from_bits({:#010x}) /* {v:?} */", v.to_bits())
}

fn render_tl_builder(tl: &Tl) -> String {
    let mut s = String::from("MVals::timeline()");
    if let Some((lit, _)) = &tl.duration {
        let _ = write!(s, ".duration_seconds({})", f32_expr(lit.seconds));
    }
    if let Some(lit) = &tl.delay {
        let _ = write!(s, ".delay_seconds({})", f32_expr(lit.seconds));
    }
    if let Some(e) = tl.easing {
        let _ = write!(s, ".default_easing(Easing::{})", EASINGS[e]);
    }
    match tl.repeat {
        Some(None) => s.push_str(".repeat(Repeat::Infinite)"),
        Some(Some(n)) => {
            let _ = write!(s, ".repeat(Repeat::Times({n}))");
        }
        None => {}
    }
    if tl.reverse {
        s.push_str(".reverse(true)");
    }
    // keyframes in the order they are written in the macro
    for idx in &tl.arg_order {
        if *idx >= 5 {
            let kf = &tl.kfs[*idx - 5];
            let pos = match &kf.pos {
                Pos::From => "0.0f32".to_string(),
                Pos::To => "1.0f32".to_string(),
                Pos::Pct(_, v) => f32_expr(*v),
            };
            match &kf.body {
                Body::Default => {
                    let _ = write!(s, ".keyframe(MVals::keyframe_from(&default_values, {pos}))");
                }
                Body::Fields(fs) => {
                    let _ = write!(s, ".keyframe(MVals::keyframe({pos})");
                    for (f, v) in fs {
                        let _ = write!(s, ".{}({})", FIELDS[*f], v);
                    }
                    s.push(')');
                }
            }
        }
    }
    s.push_str(".build()");
    s
}

fn gen_animator(rng: &mut Rng) -> Animator {
    let mut features: Vec<&'static str> = Vec::new();
    let defaults = match rng.below(5) {
        0 => Defaults::None,
        1 => {
            features.push("default-state-only");
            Defaults::StateOnly(rng.usize_below(4))
        }
        2 | 3 => {
            features.push("default-inline");
            let mut fields = Vec::new();
            for f in 0..4 {
                if rng.chance(0.6) {
                    fields.push((f, value_lit(rng, f)));
                }
            }
            Defaults::Inline(rng.usize_below(4), fields)
        }
        _ => match rng.below(3) {
            0 => {
                features.push("default-expression");
                Defaults::Expr(
                    rng.usize_below(4),
                    [value_lit(rng, 0), value_lit(rng, 1), value_lit(rng, 2), value_lit(rng, 3)],
                )
            }
            1 => {
                features.push("default-expression-call");
                Defaults::Call(
                    rng.usize_below(4),
                    [value_lit(rng, 0), value_lit(rng, 1), value_lit(rng, 2), value_lit(rng, 3)],
                )
            }
            _ => match rng.below(3) {
                0 => {
                    features.push("default-expression-struct-update");
                    Defaults::Update(rng.usize_below(4), [value_lit(rng, 0), value_lit(rng, 2)])
                }
                1 => {
                    features.push("default-expression-struct-update-base");
                    Defaults::UpdateBase(rng.usize_below(4), value_lit(rng, 0))
                }
                _ => {
                    if rng.chance(0.5) {
                        features.push("default-inline-non-idempotent");
                        Defaults::Counted(rng.usize_below(4), value_lit(rng, 0))
                    } else {
                        features.push("default-inline-reads-caller-variables-named-like-macro-locals");
                        Defaults::CallerVars(rng.usize_below(4), value_lit(rng, 0))
                    }
                }
            },
        },
    };
    let mut free: Vec<usize> = vec![0, 1, 2, 3];
    rng.shuffle(&mut free);
    let n_arms = rng.range(1, 3) as usize;
    let mut arms: Vec<Arm> = Vec::new();
    let mut used_states: Vec<usize> = Vec::new();
    let mut counted_so_far = 0usize;
    const COUNTS: [&str; 5] = ["0", "1", "2", "3", "4"];
    for _ in 0..n_arms {
        if free.is_empty() {
            break;
        }
        let mut states = vec![free.pop().unwrap()];
        // a state already mentioned by an earlier arm may be listed again: like calling `on`
        // twice, the later arm is the one in force
        if !used_states.is_empty() && rng.chance(0.12) {
            let again = used_states[rng.usize_below(used_states.len())];
            if !states.contains(&again) {
                states.push(again);
                features.push("state-in-two-arms");
            }
        }
        if !free.is_empty() && rng.chance(0.35) {
            states.push(free.pop().unwrap());
            features.push("multi-state-arm");
        }
        let merged = rng.chance(0.3);
        let n_tls = if merged { rng.range(2, 3) as usize } else { 1 };
        let bracketed = merged || rng.chance(0.1);
        // (the first arm keeps at least one keyframe so that every block stays type-inferable
        // even if a defect drops keyframe-less arms)
        let first_arm = arms.is_empty();
        let mut tls: Vec<Tl> = (0..n_tls).map(|i| gen_tl(rng, true, first_arm && i == 0)).collect();
        // A component of a bracketed list has to be written with at least one token: there is no
        // way to spell "a timeline with every default", and `[t1, ]` is `t1` followed by a
        // trailing comma, not two components.
        for t in tls.iter_mut() {
            if bracketed && render_tl_macro(t).trim().is_empty() {
                t.duration = Some((
                    TimeLit {
                        text: "1s".into(),
                        seconds: 1.0,
                    },
                    false,
                ));
                if !t.arg_order.contains(&0) {
                    t.arg_order.insert(0, 0);
                }
            }
        }
        // Sibling components (a third of the merged arms; decided and drawn from a stream of its
        // own, seeded by what the first component looks like, so that the rest of the corpus is
        // what it was before siblings existed): the second component is a copy of the first one's
        // timing - same duration, delay, easing, repeat, direction - that animates other
        // properties, and then differs from it in at most ONE timing argument. Components that
        // look alike are still separate timelines.
        if merged {
            let text = render_tl_macro(&tls[0]);
            let mut hsh = text.bytes().fold(0x7369_626cu64, |h, b| (h ^ b as u64).wrapping_mul(0x0000_0100_0000_01B3));
            hsh ^= tls[0].kfs.len() as u64;
            let has_default_body = tls[0].kfs.iter().any(|k| matches!(k.body, Body::Default));
            let back = tls[0].easing.map(|e| e >= 26).unwrap_or(false);
            let used: Vec<usize> = tls[0]
                .kfs
                .iter()
                .flat_map(|k| match &k.body {
                    Body::Fields(f) => f.iter().map(|(i, _)| *i).collect::<Vec<_>>(),
                    Body::Default => vec![],
                })
                .collect();
            let free_fields: Vec<usize> = (0..4).filter(|f| !used.contains(f) && !(*f == 3 && back)).collect();
            if hsh % 3 == 0 && !has_default_body && !free_fields.is_empty() {
                let mut r = Rng::new(hsh);
                let mut sib = tls[0].clone();
                sib.earlier_easing = None;
                let f = free_fields[r.usize_below(free_fields.len())];
                sib.kfs = vec![
                    Kf { pos: Pos::From, body: Body::Fields(vec![(f, value_lit(&mut r, f))]) },
                    Kf { pos: Pos::To, body: Body::Fields(vec![(f, value_lit(&mut r, f))]) },
                ];
                match r.below(5) {
                    0 => sib.reverse = !sib.reverse,
                    1 => {
                        sib.repeat = match sib.repeat {
                            None => Some(Some(2)),
                            Some(_) => None,
                        }
                    }
                    2 => {
                        sib.delay = match sib.delay {
                            None => Some(TimeLit { text: "250ms".into(), seconds: 0.25 }),
                            Some(_) => None,
                        }
                    }
                    3 if !back && f != 3 => {
                        sib.easing = Some(match sib.easing {
                            Some(e) => (e + 1) % 26,
                            None => 5,
                        })
                    }
                    _ => {}
                }
                sib.arg_order = (0..5 + sib.kfs.len()).collect();
                if r.chance(0.5) {
                    r.shuffle(&mut sib.arg_order);
                }
                tls[1] = sib;
                features.push("sibling-components");
            }
        }
        if merged {
            features.push("merged-arm");
        } else if bracketed {
            features.push("bracketed-single");
        }
        for t in &tls {
            if t.kfs.iter().any(|k| matches!(k.body, Body::Default)) {
                features.push("default-keyframe");
            }
            if t.duration.as_ref().map(|d| d.0.text.ends_with("ms")).unwrap_or(false) {
                features.push("ms");
            }
            if t.duration.as_ref().map(|d| d.1).unwrap_or(false) {
                features.push("for");
            }
            if t.duration.is_none() {
                features.push("no-duration");
            }
            if t.kfs.is_empty() {
                features.push("no-keyframes");
            }
            if t.delay.is_some() {
                features.push("after");
            }
            match t.repeat {
                Some(None) => features.push("infinite"),
                Some(Some(_)) => features.push("Nx"),
                None => {}
            }
            if t.reverse {
                features.push("reverse");
            }
            if t.easing.is_some() {
                features.push("easing-path");
            }
            if t.earlier_easing.is_some() {
                features.push("easing-given-twice");
            }
            if t.kfs.iter().any(|k| matches!(&k.pos, Pos::Pct(t, _) if t.contains('.'))) {
                features.push("float-percent");
            }
            if t.arg_order.windows(2).any(|w| w[0] > w[1]) {
                features.push("shuffled-arguments");
            }
        }
        used_states.extend(states.iter().copied());
        let bracket_trailing_comma = bracketed && rng.chance(0.35);
        if bracket_trailing_comma {
            features.push("trailing-comma-inside-brackets");
        }
        // a keyframe that sets `n` explicitly can have that value written as an expression
        let mut tls = tls;
        let mut n_sites: Vec<(usize, usize, usize)> = Vec::new();
        for (ti, t) in tls.iter().enumerate() {
            for (ki, k) in t.kfs.iter().enumerate() {
                if let Body::Fields(fs) = &k.body {
                    for (fi, (f, _)) in fs.iter().enumerate() {
                        if *f == 2 {
                            n_sites.push((ti, ki, fi));
                        }
                    }
                }
            }
        }
        let mut counted_value = None;
        let mut user_variable = None;
        // (once one arm counts its evaluation, later arms mostly do too: the order of evaluation
        // across arms becomes observable)
        if !n_sites.is_empty() && rng.chance(if counted_so_far > 0 { 0.85 } else { 0.3 }) {
            let site = n_sites[rng.usize_below(n_sites.len())];
            let value = if rng.chance(if counted_so_far > 0 { 0.9 } else { 0.5 }) {
                // arms are evaluated once each, in the order in which they are written
                counted_value = Some(site);
                counted_so_far += 1;
                features.push(if states.len() > 1 { "counted-keyframe-value-in-multi-state-arm" } else { "counted-keyframe-value" });
                if counted_so_far > 1 {
                    features.push("counted-keyframe-values-in-several-arms");
                }
                COUNTS[counted_so_far]
            } else {
                user_variable = Some(site);
                features.push("user-variable-named-like-a-macro-local");
                "77"
            };
            if let Body::Fields(fs) = &mut tls[site.0].kfs[site.1].body {
                fs[site.2].1 = value.to_string();
            }
        }
        arms.push(Arm {
            states,
            tls,
            bracketed,
            bracket_trailing_comma,
            counted_value,
            user_variable,
        });
    }
    if free.len() > 0 {
        features.push("unmentioned-states");
    }
    let defaults_last = rng.chance(0.5);
    if defaults_last {
        features.push("builder-twin-defaults-last");
    }
    features.sort();
    features.dedup();
    let long_paths = rng.chance(0.25);
    let trailing_comma = rng.chance(0.3);
    if long_paths {
        features.push("long-paths");
    }
    if trailing_comma {
        features.push("trailing-comma");
    }
    features.sort();
    features.dedup();
    Animator {
        defaults,
        arms,
        features,
        defaults_last,
        long_paths,
        trailing_comma,
    }
}

fn render_macro(a: &Animator) -> String {
    // surface variety that must not matter: the target type, the states and the easings may be
    // written as plain or as longer paths; the last arm may be followed by a comma
    let ty = if a.long_paths { "crate::MVals" } else { "MVals" };
    let mut s = format!("animator!({ty} {{\n");
    match &a.defaults {
        Defaults::None => {}
        Defaults::StateOnly(st) => {
            let _ = writeln!(s, "    default(MSt::S{st}),");
        }
        Defaults::Inline(st, fields) => {
            let _ = writeln!(
                s,
                "    default(MSt::S{st}, {{ {} }}),",
                fields
                    .iter()
                    .map(|(f, v)| format!("{}: {}", FIELDS[*f], v))
                    .collect::<Vec<_>>()
                    .join(", ")
            );
        }
        Defaults::Expr(st, v) => {
            let _ = writeln!(
                s,
                "    default(MSt::S{st}, MVals {{ a: {}, b: {}, n: {}, k: {} }}),",
                v[0], v[1], v[2], v[3]
            );
        }
        Defaults::Call(st, v) => {
            let _ = writeln!(s, "    default(MSt::S{st}, make_vals({}, {}, {}, {})),", v[0], v[1], v[2], v[3]);
        }
        Defaults::Update(st, v) => {
            let _ = writeln!(
                s,
                "    default(MSt::S{st}, MVals {{ a: {}, n: {}, ..MVals::default() }}),",
                v[0], v[1]
            );
        }
        Defaults::UpdateBase(st, a0) => {
            let _ = writeln!(s, "    default(MSt::S{st}, MVals {{ a: {a0}, ..base_vals() }}),");
        }
        Defaults::Counted(st, a0) => {
            let _ = writeln!(s, "    default(MSt::S{st}, {{ n: tick(), a: {a0} }}),");
        }
        Defaults::CallerVars(st, a0) => {
            let _ = writeln!(s, "    default(MSt::S{st}, {{ n: values.n, k: default_values.k, a: {a0} }}),");
        }
    }
    let arms: Vec<String> = a
        .arms
        .iter()
        .map(|arm| {
            let states = arm
                .states
                .iter()
                .map(|st| format!("MSt::S{st}"))
                .collect::<Vec<_>>()
                .join(" | ");
            // the macro text writes the marked value as an expression
            let mut tls: Vec<Tl> = arm.tls.clone();
            for (site, text) in [(arm.counted_value, "tock()"), (arm.user_variable, "default_values.n")] {
                if let Some((ti, ki, fi)) = site {
                    if let Body::Fields(fs) = &mut tls[ti].kfs[ki].body {
                        fs[fi].1 = text.to_string();
                    }
                }
            }
            let body = if arm.bracketed {
                format!(
                    "[\n        {}{}\n    ]",
                    tls.iter().map(render_tl_macro).collect::<Vec<_>>().join(",\n        "),
                    if arm.bracket_trailing_comma { "," } else { "" }
                )
            } else {
                render_tl_macro(&tls[0])
            };
            format!("    {states} => {body}")
        })
        .collect();
    s.push_str(&arms.join(",\n"));
    if a.trailing_comma {
        s.push(',');
    }
    s.push_str("\n})");
    if a.long_paths {
        s = s.replace("MSt::S", "crate::MSt::S").replace(" Easing::", " mina::Easing::");
    }
    s
}

fn render_builder(a: &Animator) -> String {
    let mut s = String::from("{\n");
    match &a.defaults {
        Defaults::None | Defaults::StateOnly(_) => {
            s.push_str("        let default_values = MVals::default();\n");
        }
        Defaults::Inline(_, fields) => {
            s.push_str("        #[allow(unused_mut)]\n        let mut default_values = MVals::default();\n");
            for (f, v) in fields {
                let _ = writeln!(s, "        default_values.{} = {};", FIELDS[*f], v);
            }
        }
        Defaults::Expr(_, v) | Defaults::Call(_, v) => {
            let _ = writeln!(
                s,
                "        let default_values = MVals {{ a: {}, b: {}, n: {}, k: {} }};",
                v[0], v[1], v[2], v[3]
            );
        }
        Defaults::Update(_, v) => {
            let _ = writeln!(
                s,
                "        let default_values = MVals {{ a: {}, b: 0.0, n: {}, k: 0 }};",
                v[0], v[1]
            );
        }
        Defaults::UpdateBase(_, a0) => {
            // base_vals() = MVals { a: 9.5, b: -3.25, n: 41, k: 17 }
            let _ = writeln!(s, "        let default_values = MVals {{ a: {a0}, b: -3.25, n: 41, k: 17 }};");
        }
        Defaults::Counted(_, a0) => {
            // tick() is reset before each twin is built and must be evaluated exactly once: 1
            let _ = writeln!(s, "        let default_values = MVals {{ a: {a0}, b: 0.0, n: 1, k: 0 }};");
        }
        Defaults::CallerVars(_, a0) => {
            // the caller's `values` holds n = 55, the caller's `default_values` holds k = 9
            let _ = writeln!(s, "        let default_values = MVals {{ a: {a0}, b: 0.0, n: 55, k: 9 }};");
        }
    }
    s.push_str("        let _ = &default_values;\n");
    s.push_str("        StateAnimatorBuilder::<MSt, MValsTimeline>::new()\n");
    // The builder is documented as a fluent, order-insensitive configuration: in half of the
    // twins the initial state / values are given before the timelines, in the other half after.
    let mut defaults = String::new();
    match &a.defaults {
        Defaults::StateOnly(st)
        | Defaults::Inline(st, _)
        | Defaults::Expr(st, _)
        | Defaults::Call(st, _)
        | Defaults::Update(st, _)
        | Defaults::UpdateBase(st, _)
        | Defaults::CallerVars(st, _)
        | Defaults::Counted(st, _) => {
            let _ = writeln!(defaults, "            .from_state(MSt::S{st})");
        }
        Defaults::None => {}
    }
    defaults.push_str("            .from_values(default_values.clone())\n");
    if !a.defaults_last {
        s.push_str(&defaults);
    }
    for arm in &a.arms {
        for st in &arm.states {
            let tl = if arm.tls.len() == 1 {
                render_tl_builder(&arm.tls[0])
            } else {
                format!(
                    "MergedTimeline::of([{}])",
                    arm.tls
                        .iter()
                        .map(render_tl_builder)
                        .collect::<Vec<_>>()
                        .join(", ")
                )
            };
            let _ = writeln!(s, "            .on(MSt::S{st}, {tl})");
        }
    }
    if a.defaults_last {
        s.push_str(&defaults);
    }
    s.push_str("            .build()\n    }");
    s
}

fn main() {
    println!("cargo:rerun-if-changed=build.rs");
    println!("cargo:rerun-if-changed=../simkit/src/rng.rs");
    println!("cargo:rerun-if-env-changed=MACRO_SIM_CORPUS_SEED");
    println!("cargo:rerun-if-env-changed=MACRO_SIM_CORPUS_SIZE");
    let seed: u64 = std::env::var("MACRO_SIM_CORPUS_SEED")
        .ok()
        .and_then(|s| s.parse().ok())
        .unwrap_or(20_231_009);
    let count: usize = std::env::var("MACRO_SIM_CORPUS_SIZE")
        .ok()
        .and_then(|s| s.parse().ok())
        .unwrap_or(150);
    let mut out = String::new();
    let _ = writeln!(out, "// generated by build.rs - corpus seed {seed}, {count} twin pairs");
    let _ = writeln!(out, "pub const CORPUS_SEED: u64 = {seed};");
    let _ = writeln!(out, "pub const PAIR_COUNT: usize = {count};");
    let mut sources = Vec::new();
    let mut features = Vec::new();
    for i in 0..count {
        let mut rng = Rng::stream(seed, "macro-corpus", i as u64);
        let a = gen_animator(&mut rng);
        let mac = render_macro(&a);
        let bld = render_builder(&a);
        let _ = writeln!(out, "#[allow(clippy::all)]\nfn pair_{i}() -> (BoxedAnimator, BoxedAnimator) {{");
        let _ = writeln!(out, "    reset_tick();");
        if a.arms.iter().any(|arm| arm.user_variable.is_some()) || matches!(a.defaults, Defaults::CallerVars(..)) {
            // variables of the caller that happen to be named like plausible locals of the expansion
            let _ = writeln!(out, "    let default_values = MVals {{ a: 0.0, b: 0.0, n: 77, k: 9 }};");
            let _ = writeln!(out, "    let values = MVals {{ a: 0.0, b: 0.0, n: 55, k: 3 }};");
            let _ = writeln!(out, "    let _ = (&default_values, &values);");
        }
        let _ = writeln!(out, "    let from_macro = {mac};");
        let _ = writeln!(out, "    let from_builder = {bld};");
        let _ = writeln!(out, "    (Box::new(from_macro), Box::new(from_builder))\n}}");
        sources.push(mac);
        features.push(a.features);
    }
    let _ = writeln!(out, "pub fn make_pair(i: usize) -> (BoxedAnimator, BoxedAnimator) {{\n    match i {{");
    for i in 0..count {
        let _ = writeln!(out, "        {i} => pair_{i}(),");
    }
    let _ = writeln!(out, "        _ => pair_0(),\n    }}\n}}");
    let _ = writeln!(out, "pub const PAIR_SOURCE: [&str; {count}] = [");
    for s in &sources {
        let _ = writeln!(out, "    r####\"{s}\"####,");
    }
    let _ = writeln!(out, "];");
    let _ = writeln!(out, "pub const PAIR_FEATURES: [&[&str]; {count}] = [");
    for f in &features {
        let _ = writeln!(
            out,
            "    &[{}],",
            f.iter().map(|x| format!("\"{x}\"")).collect::<Vec<_>>().join(", ")
        );
    }
    let _ = writeln!(out, "];");
    let dir = std::env::var("OUT_DIR").unwrap();
    std::fs::write(std::path::Path::new(&dir).join("corpus.rs"), out).unwrap();
}
