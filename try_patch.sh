#!/usr/bin/env bash
# try_patch.sh <patch.diff> <property>... : applies a patch to /repo, runs the quick checks of the
# given properties, prints their verdicts, and always restores /repo's working tree.
set -u
patch="$(readlink -f "$1")"; shift
cd /repo || exit 2
if ! git diff --quiet; then echo "/repo has uncommitted changes; refusing"; exit 2; fi
if ! git apply "$patch" 2>/dev/null; then git reset -q --hard HEAD; if ! git apply --3way "$patch" 2>/dev/null || [ -n "$(git diff --name-only --diff-filter=U)" ]; then echo "PATCH-DOES-NOT-APPLY $patch"; git reset -q --hard HEAD; exit 2; fi; fi
git reset -q 2>/dev/null
trap 'cd /repo && git checkout -q -- . && git clean -fdq -- core macros bevy src tests 2>/dev/null' EXIT
for p in "$@"; do
  out="$(cd /verif && VERIF_OUT_DIR=${VERIF_OUT:-/tmp/vt} ./check "$p" quick 2>&1)"; code=$?
  line="$(echo "$out" | grep -E "^violation in run|^debug and release disagree" | head -1 | cut -c1-260)"
  echo "[$p] exit=$code ${line}"
done
