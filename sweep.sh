#!/usr/bin/env bash
# sweep.sh <tier> <seed>... : runs every claimed check at the given tier for each seed, writing
# evidence/replays to a scratch directory; prints one line per (seed, property). Used to measure
# the alarm rate on the unchanged tree (must be zero) over many seeds.
tier="$1"; shift
# Under `vp run --with-repo` work against the snapshot of /repo's HEAD instead of /repo itself, so
# that patches being tried in /repo meanwhile cannot disturb the sweep (only done in a snapshot).
if [ -n "${VP_RUN_REPO:-}" ] && [ "$(cd "$(dirname "$0")" && pwd)" != /verif ]; then
  sed -i "s#\"/repo#\"$VP_RUN_REPO#g" "$(dirname "$0")"/sim/*/Cargo.toml
fi
out="$(mktemp -d)"
for seed in "$@"; do
  for p in C04 C05 C06 C07 C08 C09 C16 C18 C19 C20; do
    [ "$p" = C16 ] && [ ! -d "$(dirname "$0")/sim/macro_sim" ] && continue
    res="$(VERIF_SEED=$seed VERIF_OUT_DIR=$out "$(dirname "$0")/check" $p $tier 2>&1)"; code=$?
    echo "seed=$seed $p exit=$code $(echo "$res" | grep -E '^violation|^VIOLATION|HARNESS|BUILD-ERROR|disagree' | head -2 | tr '\n' ' ' | cut -c1-300)"
  done
done
rm -rf "$out"
