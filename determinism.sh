#!/usr/bin/env bash
# determinism.sh [n_runs] [repeats] : proves replayability on a large sample. For every engine and
# property, the observation hashes of run indices 0..n-1 are computed in `repeats` fresh processes
# (single-threaded `obs` sub-command) and, via `check --obs-log`, in the worker pool at two worker
# counts; all must be byte-identical. Exit 0 = deterministic, 2 = divergence.
set -u
HOME_DIR="$(cd "$(dirname "${BASH_SOURCE[0]}")" && pwd)"
n="${1:-3000}"; reps="${2:-4}"
out="$(mktemp -d)"; trap 'rm -rf "$out"' EXIT
idx="$(seq -s, 0 $((n-1)))"
rc=0
for pair in core_sim:C04 core_sim:C05 core_sim:C06 core_sim:C07 core_sim:C08 core_sim:C20 timeline_sim:C09 timeline_sim:C20 macro_sim:C16 bevy_sim:C18 bevy_sim:C19 bevy_sim:C20; do
  eng="${pair%%:*}"; prop="${pair##*:}"; bin="$HOME_DIR/sim/target/release/$eng"
  [ -x "$bin" ] || { echo "missing $bin (run ./check build)"; exit 2; }
  for r in $(seq 1 "$reps"); do "$bin" obs --property "$prop" --indices "$idx" | md5sum | cut -d' ' -f1; done | sort -u > "$out/single"
  for wk in 3 16; do
    VERIF_DIR="$out" "$bin" check --property "$prop" --runs "$n" --workers "$wk" --obs-log "$out/pool.$wk" --no-evidence >/dev/null 2>&1
    awk '{print $1" "$2}' "$out/pool.$wk" | md5sum | cut -d' ' -f1
  done | sort -u > "$out/pool"
  single_count="$(wc -l < "$out/single")"; pool_count="$(wc -l < "$out/pool")"
  # the pool log and the obs output use the same "idx hash" format
  a="$(cat "$out/single" | head -1)"; b="$(cat "$out/pool" | head -1)"
  if [ "$single_count" = 1 ] && [ "$pool_count" = 1 ] && [ "$a" = "$b" ]; then
    echo "$eng $prop: $n runs x ($reps fresh single-threaded processes + pools of 3 and 16 workers): identical ($a)"
  else
    echo "$eng $prop: DIVERGENCE single=$(tr '\n' ' ' < "$out/single") pool=$(tr '\n' ' ' < "$out/pool")"; rc=2
  fi
done
exit $rc
